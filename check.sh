#!/bin/bash
# Entry point of the sdfx deterministic-simulation checks.
#   ./check.sh build                 build the simulator against ${VERIF_REPO:-/repo} (tag verif)
#   ./check.sh <ID> <quick|thorough> run the check of one property (C09..C15)
#   ./check.sh replay <file>         re-run a replay file in a fresh process
#   ./check.sh selftest              determinism self-test of the simulator
# Exit 0: property held on everything explored. Exit 1: VIOLATION line printed.
# Exit 2: build trouble, watchdog, simulator self-check failure (never a violation).
set -u
ROOT="$(cd "$(dirname "$0")" && pwd)"
export VERIF_ROOT="$ROOT"
export GOFLAGS=-mod=mod GOPROXY=off GOSUMDB=off GOTOOLCHAIN=local GONOSUMDB=* GONOSUMCHECK=1 GOFLAGS=-mod=mod
REPO="${VERIF_REPO:-/repo}"
BIN="${VERIF_BIN:-$ROOT/bin}"
mkdir -p "$BIN"

build() { # $1 = race|plain
  local out="$BIN/simcheck" flags=""
  if [ "$1" = race ]; then out="$BIN/simcheck-race"; flags="-race"; fi
  local modfile="$ROOT/sim/go.mod"
  local tmpmod=""
  if [ "$REPO" != "/repo" ]; then
    tmpmod="$(mktemp -d)"
    sed "s|=> /repo|=> $REPO|" "$ROOT/sim/go.mod" > "$tmpmod/go.mod"
    cp "$REPO/go.sum" "$tmpmod/go.sum"
    modfile="$tmpmod/go.mod"
  else
    cp "$REPO/go.sum" "$ROOT/sim/go.sum" 2>/dev/null
  fi
  local tmpout
  tmpout="$(mktemp "$BIN/.build.XXXXXX")"
  # scheduling hooks before every synchronisation operation of the sdfx packages:
  # inserted into copies of the sources and fed to the compiler through -overlay
  # (the tree at $REPO is not touched). If the instrumenter cannot cope with the
  # sources the build goes ahead with the hand-placed hooks only.
  local overlay="" inst
  inst="$(mktemp -d)"
  if [ "${VERIF_NO_AUTOHOOKS:-}" = "" ] && ( cd "$ROOT/sim" && go build -modfile="$modfile" -o "$BIN/instrument" ./cmd/instrument ) 2>>"$BIN/build-$1.log" \
     && "$BIN/instrument" -repo "$REPO" -out "$inst" >"$BIN/instrument.log" 2>&1; then
    overlay="-overlay=$inst/overlay.json"
  else
    echo "note: automatic hook insertion skipped (see $BIN/instrument.log)" >&2
  fi
  ( cd "$ROOT/sim" && go build -modfile="$modfile" -tags verif $flags $overlay -o "$tmpout" ./cmd/simcheck ) 2>"$BIN/build-$1.log"
  local rc=$?
  if [ $rc -ne 0 ] && [ -n "$overlay" ]; then
    # never let the instrumentation itself break a build that is fine without it
    ( cd "$ROOT/sim" && go build -modfile="$modfile" -tags verif $flags -o "$tmpout" ./cmd/simcheck ) 2>"$BIN/build-$1.log"
    rc=$?
    [ $rc -eq 0 ] && echo "note: instrumented sources did not compile; built with the hand-placed hooks only" >&2
  fi
  rm -rf "$inst"
  [ -n "$tmpmod" ] && rm -rf "$tmpmod"
  if [ $rc -ne 0 ]; then
    rm -f "$tmpout"
    echo "BUILD-ERROR ($1): sdfx at $REPO or the harness does not compile with -tags verif" >&2
    tail -20 "$BIN/build-$1.log" >&2
    return 2
  fi
  mv -f "$tmpout" "$out"
}

build_locked() {
  exec 9>"$BIN/.lock"
  flock 9
  build plain || return 2
  if [ "${1:-}" = race ]; then build race || return 2; fi
  flock -u 9
}

cmd="${1:-}"
case "$cmd" in
  build)
    build_locked race || exit 2
    echo "built $BIN/simcheck and $BIN/simcheck-race against $REPO"
    ;;
  replay)
    build_locked race || exit 2
    exec "$BIN/simcheck" replay "$2"
    ;;
  selftest)
    build_locked race || exit 2
    shift
    exec "$BIN/simcheck" selftest "$@"
    ;;
  C12|C14)
    build_locked || exit 2
    exec "$BIN/simcheck" run "$cmd" "${2:-${VERIF_TIER:-quick}}"
    ;;
  C09|C10|C11|C13|C15)
    build_locked race || exit 2
    exec "$BIN/simcheck" run "$cmd" "${2:-${VERIF_TIER:-quick}}"
    ;;
  *)
    echo "usage: $0 build | <C09..C15> <quick|thorough> | replay <file> | selftest" >&2
    exit 2
    ;;
esac
