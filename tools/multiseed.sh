#!/bin/bash
# Run every quick check under several VERIF_SEED values on the unchanged tree;
# report any run that does not exit 0. Evidence is redirected (VERIF_OUT).
#   tools/multiseed.sh <first-seed> <count> [tier]
ROOT="$(cd "$(dirname "$0")/.." && pwd)"
F="${1:-100}"; N="${2:-8}"; TIER="${3:-quick}"
OUT=/var/tmp/sdfx-multiseed; mkdir -p $OUT
bad=0
for p in C09 C10 C11 C12 C13 C14 C15; do
  for ((s=F; s<F+N; s++)); do
    VERIF_OUT=$OUT VERIF_SEED=$s "$ROOT/check.sh" $p $TIER > $OUT/$p-$s.log 2>&1; rc=$?
    if [ $rc -ne 0 ]; then bad=$((bad+1)); echo "ALARM $p seed=$s exit=$rc"; grep "VIOLATION\|HARNESS\|class=" $OUT/$p-$s.log | head -5; fi
  done
  echo "$p: seeds $F..$((F+N-1)) done"
done
echo "multiseed: $bad alarms"
