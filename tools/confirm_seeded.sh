#!/bin/bash
# Confirm a seeded change independently and store it under /verif/seeded/<name>/.
#   tools/confirm_seeded.sh <agent-out-dir> <name> <property>
# Steps (all in a fresh scratch worktree of /repo HEAD, removed afterwards):
#  1. patch applies, go build ./... with and without -tags verif
#  2. baseline tests pass
#  3. demo fails against the patched tree, passes against /repo
set -u
OUT="$1"; NAME="$2"; PROP="$3"
export GOFLAGS=-mod=mod GOPROXY=off GOSUMDB=off GOTOOLCHAIN=local
DEST=/verif/seeded/$NAME
WT="$(mktemp -d /var/tmp/sdfx-confirm.XXXXXX)"; rmdir "$WT"
trap 'git -C /repo worktree remove --force "$WT" >/dev/null 2>&1; rm -rf "$WT"; git -C /repo worktree prune' EXIT
git -C /repo worktree add --detach "$WT" HEAD >/dev/null 2>&1 || { echo "worktree failed"; exit 2; }
( cd "$WT" && git apply "$OUT/patch.diff" ) || { echo "CONFIRM-FAIL: patch does not apply"; exit 1; }
( cd "$WT" && go build ./... && go build -tags verif ./... ) || { echo "CONFIRM-FAIL: does not build"; exit 1; }
( cd "$WT" && go test -vet=off -count=1 ./render/... ./sdf/... ./vec/v3/... >/tmp/confirm-tests.log 2>&1 ) || { echo "CONFIRM-FAIL: baseline tests fail"; tail -5 /tmp/confirm-tests.log; exit 1; }
DEMO="$(mktemp -d /var/tmp/sdfx-demo.XXXXXX)"
cp -r "$OUT/demo/." "$DEMO/"
rundemo() { # $1 = tree
  ( cd "$DEMO" && cp "$1/go.sum" . 2>/dev/null; go mod edit -replace github.com/deadsy/sdfx="$1" && if ls *_test.go >/dev/null 2>&1; then timeout 900 go test ${DEMO_TAGS:+-tags $DEMO_TAGS} -count=1 ./... ; else timeout 900 go run ${DEMO_TAGS:+-tags $DEMO_TAGS} . ; fi ) >"$DEMO/out.log" 2>&1
}
rundemo "$WT"; RC_MOD=$?
tail -3 "$DEMO/out.log" > /tmp/confirm-mod.log
rundemo /repo; RC_ORIG=$?
tail -3 "$DEMO/out.log" > /tmp/confirm-orig.log
rm -rf "$DEMO"
echo "demo on patched tree: exit $RC_MOD; on /repo: exit $RC_ORIG"
if [ $RC_MOD -eq 0 ] || [ $RC_ORIG -ne 0 ]; then echo "CONFIRM-FAIL: demo does not discriminate"; cat /tmp/confirm-mod.log /tmp/confirm-orig.log; exit 1; fi
mkdir -p "$DEST"
cp "$OUT/patch.diff" "$DEST/patch.diff"
rm -rf "$DEST/demo"; cp -r "$OUT/demo" "$DEST/demo"; rm -f "$DEST/demo/go.sum"
python3 - "$OUT" "$DEST" "$NAME" "$PROP" "$RC_MOD" <<'PY'
import json,sys,subprocess
out,dest,name,prop,rc=sys.argv[1:6]
try: m=json.load(open(out+'/meta.json'))
except Exception: m={}
head=subprocess.check_output(['git','-C','/repo','rev-parse','--short','HEAD']).decode().strip()
meta={"name":name,"property":prop,"breaks":m.get("summary",""),"needs_to_manifest":m.get("needs",""),
 "origin":"independent sub-agent given only the property text and a scratch worktree",
 "confirmed":{"repo_head":head,"what_i_ran":["git apply patch.diff in a fresh worktree of /repo HEAD","go build ./... && go build -tags verif ./...","go test -vet=off -count=1 ./render/... ./sdf/... ./vec/v3/... (pass)",
   f"demo (go run . / go test in demo/ with replace => patched tree): exit {rc} (fails)","same demo with replace => /repo: exit 0 (passes)"]},
 "agent_reliability_note":m.get("reliability","")}
json.dump(meta,open(dest+'/meta.json','w'),indent=1)
PY
echo "CONFIRMED $NAME -> $DEST"
