#!/bin/bash
# Run the seeded changes that have no row in seeded/RESULTS-<tier>.md yet and append their rows.
#   tools/run_missing_seeded.sh [quick|thorough]
TIER="${1:-quick}"
ROOT="$(cd "$(dirname "$0")/.." && pwd)"
RES="$ROOT/seeded/RESULTS-$TIER.md"
touch "$RES"
for d in "$ROOT"/seeded/*/; do
  name="$(basename "$d")"
  [ -f "$d/patch.diff" ] || continue
  grep -q "^| $name |" "$RES" && continue
  prop="$(python3 -c "import json,sys; print(json.load(open('$d/meta.json'))['property'])")"
  t0=$(date +%s)
  out="$(VERIF_OUT=/var/tmp/sdfx-mut-out/$name "$ROOT/mutants/run_mutant.sh" "$d/patch.diff" "$prop" "$TIER" 2>&1)"; rc=$?
  t1=$(date +%s)
  classes="$(echo "$out" | grep -o 'class=[a-z0-9-]*' | sort -u | tr '\n' ' ')"
  case $rc in 0) r="MISSED";; 1) r="caught";; *) r="error(exit $rc)";; esac
  echo "| $name | $prop | $r | $classes | $((t1-t0)) |" >> "$RES"
  echo "$name $prop $r $classes"
  rm -rf /var/tmp/sdfx-mut-out/$name
done
