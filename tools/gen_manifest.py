#!/usr/bin/env python3
"""Regenerates /verif/MANIFEST.json (kept in git; run after changing the set of checks)."""
import json, subprocess
hook = subprocess.check_output(['git','-C','/repo','log','--format=%H','--grep','^verif:']).decode().split()
na = {
"C01":"pure geometry: bounding box vs Evaluate is a function of constructor arguments and a point; no schedule, clock, fault or history for a simulator to choose",
"C02":"pure function of operands and point; its only history-dependent clause (cache/voxel wrappers return the wrapped values for every query history) is exercised inside the C10 check's value oracle, but C02 as a whole is not a simulation target",
"C03":"pure real-analysis statement about Evaluate (exactness / 1-Lipschitz); single goroutine, no I/O, no state",
"C04":"pure function of polygon and point",
"C05":"property of the marching-cubes case tables and interpolation given corner values; the only concurrency on that path (layer evaluation) is covered by C09",
"C06":"pure function of field and lattice",
"C07":"the octree/quadtree renderers are sequential recursions; pure function of the field",
"C08":"pure function of the 2D field and grid",
"C16":"pruned vs exhaustive evaluation is a pure function of shape and point",
"C17":"profile builders are pure (the one sdfRand draw only perturbs a flatness test; its process-history dependence is noted under C09)",
"C18":"table data and pure evaluation",
"C19":"sequential algorithms writing to a caller-drained channel; the repeat-run clause is exercised as extra renderers in the C09 check, the geometric clauses are not simulation targets",
"C20":"Delaunay triangulation is a pure function of the point set",
}
def chk(pid, cat, text, note, tech, ref):
    return {"property_id":pid,"quick_cmd":f"./check.sh {pid} quick","thorough_cmd":f"./check.sh {pid} thorough",
            "evidence_file":f"evidence/{pid}.json","replay_cmd_template":"./check.sh replay {path}","engine":"simcheck",
            "level_claimed":{"category":cat,"text":text,"design_ref":ref},"level_note":note,"technique":tech}
common_note = " Quiescence detection relies on go1.23 wait-reason strings (an unknown reason can only stall into the watchdog: exit 2, never a verdict). A clean batch is evidence, not proof."
checks = [
chk("C09","exploration",
 "Every (renderer, model, resolution, sink) signature is rendered once canonically in a fresh process and then under seeded schedules (evaluations parked before and after the real Evaluate, writer, batch sender and consumers parked at hooks; uniform/pct/starve/burst policies), GOMAXPROCS 1..16, worker-pool sizes 1..16 (CPU affinity), after 0..3 preceding renders and with 1..3 concurrent renders in the same process; every output digest must equal the canonical one. Also: the whole shape catalogue built and rendered in several fresh processes; every resolution 2..32 of the uniform renderer; trigger schedules (a goroutine or a whole second render is held back and let through exactly when another goroutine is at the k-th instrumented code location); faults in real time and of the environment (slow writer goroutine, slow evaluation, a final step that takes 11 s, another calendar day via TZ, forced garbage collections); the sink is also digested at the moment the call returns.",
 "Evaluations are parked at the SDF interface seam; model construction order inside a process is fixed by the episode script; NumCPU <= 16." + common_note,
 "deterministic simulation: seeded goroutine scheduler over the real worker pool and writer goroutines; canonical-vs-perturbed output digests across fresh processes", "DESIGN.md §3 C09"),
chk("C10","exploration",
 "For every exported sdf/obj constructor (catalogue audited against the source with go/parser): 2..4 simulated callers evaluate one shared instance over overlapping point lists, parked before each call and inside combinators at yielding leaf wrappers; a rotating quarter (thorough: all) is also rendered with the uniform marching-cubes worker pool. Every blend option on every shape with a setter; long and threshold-crossing query histories (2^8..2^20 evaluations) before and during the concurrent phase for every light-weight entry, under forced garbage collections; trigger and site-stall schedules over the automatically inserted hooks. Built with -race; parking is invisible to the race detector, so reports depend on the simulated schedule only and replay from the seed. Oracle: bit-identical values vs sequential evaluation of a fresh instance, no race report with an sdfx frame, no runtime fault.",
 "Sub-call interleavings inside un-wrappable leaves are not explored; there the verdict rests on the happens-before race detector (bounded shadow history: misses possible, false reports not)." + common_note,
 "deterministic simulation of concurrent callers with race-detector-invisible parking (runtime.RaceDisable window) + ThreadSanitizer + value oracle", "DESIGN.md §3 C10"),
chk("C11","exploration",
 "Seeded search over producer/consumer interleavings, item counts, batch partitions and producer counts of the real buffer/channel/consumer pipeline into all five sinks; conservation oracle evaluated at the moment the call returns and at quiescence. The thorough tier additionally enumerates every item count 0..1100 for three canonical partitions. Also: 2^16..2^20-item outputs, producers that reuse their batch slice, repeated and mid-stream Close, outputs on a named pipe (content checked on what the reader received), slow consumers and an 11 s final step in real time, forced garbage collections, trigger sweeps for every sink.",
 "Interleaving is controlled at seam granularity (producer Write calls, consumer loop iterations, final flush/encode/save) through the verif-tagged hooks; the harness's own decoders are trusted." + common_note,
 "deterministic simulation: seeded goroutine scheduler over real goroutines + scripted producers; conservation oracle on decoded sinks", "DESIGN.md §3 C11"),
chk("C12","fault_enumeration",
 "Every render-to-file entry x renderer x disk fault (create failure, /dev/full, RLIMIT_FSIZE budget at every 4096-byte flush index +-1, header offsets, final flush, header rewrite; every byte offset for small files in the thorough tier) x schedule; liveness oracle is the simulator's deadlock verdict (state-based, not a timeout). Goroutine census over repeated render histories. Further fault kinds: file unlinked after creation, descriptor exhaustion, symbolic-link loops, output on a named pipe (also with a reader that is busy for 12..35 s), a failed flush followed by a renderer that pauses 7..31 s; resolutions 1..1024, placements far/huge/tiny, a space-filling infill model, models used 2^16..2^20 times before the render, GOMAXPROCS above the CPU count; census histories that alternate resolutions.",
 "The kernel acts as the disk (RLIMIT_FSIZE/EFBIG, /dev/full/ENOSPC, ENOENT, EISDIR); faults needing a lying file descriptor are out of reach. NumCPU <= 16." + common_note,
 "deterministic simulation with disk-fault injection at the file-system boundary; deadlock verdict from goroutine-state snapshots; goroutine census", "DESIGN.md §4 C12"),
chk("C13","exploration",
 "Write->read histories across the storage boundary: seeded triangle lists over the float32 range written through the streaming writer (scripted renderer, seeded batch partitions and producer/consumer schedules) and through SaveSTL; byte equality of the two, independent decoding of every field, LoadSTL round trip, ASCII round trip. SaveSTL under write faults (success implies a well-formed file); loaded meshes compared after further loads and after in-place edits; counts up to 2^20; output paths with spaces, non-ASCII, 180-character names, symlinked directories and files; real-time stalls and forced garbage collections.",
 "The schedule/batching dimension is what simulation adds; the coordinate dimension is seeded input generation and labelled as such. Normals are compared for well-conditioned triangles only." + common_note,
 "deterministic simulation of the streaming STL writer pipeline + independent byte-level decoder + round-trip oracle", "DESIGN.md §5 C13"),
chk("C14","fault_enumeration",
 "The loader over the storage-fault closure of valid files: every truncation offset, every count-field bit, every flush-index crash image of the streaming writer, every line-level ASCII fault and every single/pair sector fault of small files are enumerated; multi-fault sequences (1..4 operators) and the shipped files are sampled. Both entry points (render.LoadSTL, obj.ImportSTL). Undamaged files of every triangle count 0..300 (thorough 4200) and round counts to 65537; line-only files up to 16 Mi lines (stack growth counted as memory); encoding damage; loads under GOMAXPROCS 1..64 and with 0..2 free file descriptors. Oracle: error or mesh, no panic, no hang, bounded allocation.",
 "Totality is claimed over what a faulty disk makes of a valid file, not over adversarial byte strings; a hang is a 20 s bound on sequential code.",
 "storage-fault injection between write and read (crash images, torn/lost/misdirected sectors, bit rot, truncation) with enumeration of the small-file fault space", "DESIGN.md §4 C14"),
chk("C15","exploration",
 "Seeded triangle/segment lists (empty, duplicates, shared vertices, negative, tiny, large, decimal halfway cases) through To3MF/ToDXF/ToSVG under seeded batch partitions and schedules and through SaveDXF/SaveSVG; decoded with the harness's own zip+xml / DXF group-code / xml readers and compared with a reference model written from the property statement. The drawing objects behind SaveDXF/SaveSVG are also driven step by step (Line/Lines/Points, repeated Save, caller storage overwritten); exact binary ties and round-off residues among the coordinates; counts to 65537.",
 "One known finding (DXF text has 16 decimals) is listed in known_findings.json and reported as KNOWN-FINDING; any other difference is a violation." + common_note,
 "deterministic simulation of the sink pipelines + independent decoders + reference model of each format", "DESIGN.md §5 C15"),
]
m = {"version":1,
 "setup_cmd":"./check.sh build",
 "hooks":{"guard":"verif","enable":"go build -tags verif (check.sh builds /verif/sim with replace github.com/deadsy/sdfx => /repo; in addition sim/cmd/instrument inserts simYield calls before every synchronisation operation into temporary copies of the sdfx sources that are passed to the compiler with -overlay - /repo itself is not modified)",
   "baseline_off_cmd":"cd /repo && go build ./... && go test -vet=off -count=1 ./render/... ./sdf/... ./vec/v3/...",
   "source_commits":hook,"add_only":True},
 "engines":[{"name":"simcheck","path":"sim/","serves_properties":["C09","C10","C11","C12","C13","C14","C15"],
   "kind_free_text":"deterministic simulation: seeded scheduler for real goroutines (quiescence from runtime.Stack snapshots, race-detector-invisible parking), scripted renderers, disk-fault injection at the file-system boundary, storage-fault operators, process-per-episode driver with minimisation and replay files"}],
 "checks":checks,
 "not_applicable":[{"property_id":k,"reason":v} for k,v in sorted(na.items())],
 "notes":"Technique family: deterministic simulation with fault injection. See DESIGN.md. Known findings and fixed defects: known_findings.json. Replay: ./check.sh replay <file>. Determinism self-test: ./check.sh selftest [scenarios-per-property] [repetitions]."}
json.dump(m, open("/verif/MANIFEST.json","w"), indent=1)
print("MANIFEST.json written:", len(checks), "checks,", len(na), "not applicable")
