package main

// Catalogue entries for the blend options: every exported MinFunc / MaxFunc
// constructor installed on every shape type that has a SetMin / SetMax
// setter (a closure shared by all goroutines that evaluate the shape), and
// the Multi2D / Multi3D helpers with an order-sensitive blend.

import (
	"github.com/deadsy/sdfx/sdf"
	v2 "github.com/deadsy/sdfx/vec/v2"
	"github.com/deadsy/sdfx/vec/v2i"
	v3 "github.com/deadsy/sdfx/vec/v3"
	"github.com/deadsy/sdfx/vec/v3i"
)

func init() {
	mins := []struct {
		name string
		ctor string
		f    func() sdf.MinFunc
	}{
		{"round", "sdf.RoundMin", func() sdf.MinFunc { return sdf.RoundMin(0.6) }},
		{"chamfer", "sdf.ChamferMin", func() sdf.MinFunc { return sdf.ChamferMin(0.6) }},
		{"exp", "sdf.ExpMin", func() sdf.MinFunc { return sdf.ExpMin(8) }},
		{"pow", "sdf.PowMin", func() sdf.MinFunc { return sdf.PowMin(8) }},
		{"poly", "sdf.PolyMin", func() sdf.MinFunc { return sdf.PolyMin(0.6) }},
	}
	for _, m := range mins {
		m := m
		register(catEntry{Name: "b-union3d-" + m.name, Ctors: []string{"sdf.Union3D", m.ctor},
			Build3: func(lw *leafWrapper) sdf.SDF3 {
				u := sdf.Union3D(manySpheres(5, lw)...)
				u.(*sdf.UnionSDF3).SetMin(m.f())
				return u
			}})
		register(catEntry{Name: "b-union2d-" + m.name, Ctors: []string{"sdf.Union2D", m.ctor},
			Build2: func(lw *leafWrapper) sdf.SDF2 {
				u := sdf.Union2D(manyCircles(5, lw)...)
				u.(*sdf.UnionSDF2).SetMin(m.f())
				return u
			}})
		register(catEntry{Name: "b-array3d-" + m.name, Ctors: []string{"sdf.Array3D", m.ctor},
			Build3: func(lw *leafWrapper) sdf.SDF3 {
				a := sdf.Array3D(lw.w3(must3(sdf.Sphere3D(1.2))), v3i.Vec{X: 3, Y: 2, Z: 2}, v3.Vec{X: 2, Y: 2, Z: 2})
				a.(*sdf.ArraySDF3).SetMin(m.f())
				return a
			}})
		register(catEntry{Name: "b-array2d-" + m.name, Ctors: []string{"sdf.Array2D", m.ctor},
			Build2: func(lw *leafWrapper) sdf.SDF2 {
				a := sdf.Array2D(lw.w2(must2(sdf.Circle2D(1.2))), v2i.Vec{X: 3, Y: 3}, v2.Vec{X: 2, Y: 2})
				a.(*sdf.ArraySDF2).SetMin(m.f())
				return a
			}})
		register(catEntry{Name: "b-rotate-union3d-" + m.name, Ctors: []string{"sdf.RotateUnion3D", m.ctor},
			Build3: func(lw *leafWrapper) sdf.SDF3 {
				s := lw.w3(catOffsetSphere(1.1, v3.Vec{X: 2.5, Y: 0, Z: 0}))
				u := sdf.RotateUnion3D(s, 7, sdf.RotateZ(sdf.DtoR(40)))
				u.(*sdf.RotateUnionSDF3).SetMin(m.f())
				return u
			}})
		register(catEntry{Name: "b-rotate-union2d-" + m.name, Ctors: []string{"sdf.RotateUnion2D", m.ctor},
			Build2: func(lw *leafWrapper) sdf.SDF2 {
				t := lw.w2(catOffsetBox2(v2.Vec{X: 2, Y: 1}, 0.1, v2.Vec{X: 2.5, Y: 0}))
				u := sdf.RotateUnion2D(t, 7, sdf.Rotate2d(sdf.DtoR(40)))
				u.(*sdf.RotateUnionSDF2).SetMin(m.f())
				return u
			}})
	}
	// the one MaxFunc constructor on every shape with SetMax
	register(catEntry{Name: "b-difference3d-polymax", Ctors: []string{"sdf.Difference3D", "sdf.PolyMax"},
		Build3: func(lw *leafWrapper) sdf.SDF3 {
			d := sdf.Difference3D(lw.w3(must3(sdf.Box3D(v3.Vec{X: 6, Y: 6, Z: 6}, 0.3))), lw.w3(must3(sdf.Sphere3D(3.5))))
			d.(*sdf.DifferenceSDF3).SetMax(sdf.PolyMax(0.7))
			return d
		}})
	register(catEntry{Name: "b-intersect3d-polymax", Ctors: []string{"sdf.Intersect3D", "sdf.PolyMax"},
		Build3: func(lw *leafWrapper) sdf.SDF3 {
			d := sdf.Intersect3D(lw.w3(must3(sdf.Box3D(v3.Vec{X: 6, Y: 6, Z: 6}, 0.3))), lw.w3(must3(sdf.Sphere3D(3.5))))
			d.(*sdf.IntersectionSDF3).SetMax(sdf.PolyMax(0.7))
			return d
		}})
	register(catEntry{Name: "b-difference2d-polymax", Ctors: []string{"sdf.Difference2D", "sdf.PolyMax"},
		Build2: func(lw *leafWrapper) sdf.SDF2 {
			d := sdf.Difference2D(lw.w2(sdf.Box2D(v2.Vec{X: 6, Y: 6}, 0.3)), lw.w2(must2(sdf.Circle2D(3.5))))
			d.(*sdf.DifferenceSDF2).SetMax(sdf.PolyMax(0.7))
			return d
		}})
	register(catEntry{Name: "b-intersect2d-polymax", Ctors: []string{"sdf.Intersect2D", "sdf.PolyMax"},
		Build2: func(lw *leafWrapper) sdf.SDF2 {
			d := sdf.Intersect2D(lw.w2(sdf.Box2D(v2.Vec{X: 6, Y: 6}, 0.3)), lw.w2(must2(sdf.Circle2D(3.5))))
			d.(*sdf.IntersectionSDF2).SetMax(sdf.PolyMax(0.7))
			return d
		}})
	// Multi2D / Multi3D return unions: positions with overlapping blend regions,
	// a duplicate position among them
	multiPos3 := v3.VecSet{{X: 0, Y: 0, Z: 0}, {X: 1.6, Y: 0, Z: 0}, {X: 0.8, Y: 1.4, Z: 0}, {X: 0.8, Y: 0.5, Z: 1.3}, {X: 1.6, Y: 0, Z: 0}, {X: -1.2, Y: 0.7, Z: 0.4}}
	multiPos2 := v2.VecSet{{X: 0, Y: 0}, {X: 1.6, Y: 0}, {X: 0.8, Y: 1.4}, {X: 1.6, Y: 0}, {X: -1.2, Y: 0.7}, {X: 0.3, Y: -1.5}}
	for _, m := range mins {
		m := m
		register(catEntry{Name: "b-multi3d-" + m.name, Ctors: []string{"sdf.Multi3D", m.ctor},
			Build3: func(lw *leafWrapper) sdf.SDF3 {
				u := sdf.Multi3D(lw.w3(must3(sdf.Sphere3D(1))), multiPos3)
				u.(*sdf.UnionSDF3).SetMin(m.f())
				return u
			}})
		register(catEntry{Name: "b-multi2d-" + m.name, Ctors: []string{"sdf.Multi2D", m.ctor},
			Build2: func(lw *leafWrapper) sdf.SDF2 {
				u := sdf.Multi2D(lw.w2(must2(sdf.Circle2D(1))), multiPos2)
				u.(*sdf.UnionSDF2).SetMin(m.f())
				return u
			}})
	}
}
