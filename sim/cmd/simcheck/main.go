// simcheck: deterministic simulation with fault injection for deadsy/sdfx.
//
//	simcheck episode            one simulated run; scenario JSON on stdin, result JSON on stdout
//	simcheck run <ID> <tier>    driver: many episodes in child processes, evidence, replay files
//	simcheck replay <file>      re-run a replay file in a fresh process
//	simcheck selftest           determinism self-test of the simulator
package main

import (
	"encoding/json"
	"fmt"
	"io"
	"os"
)

func main() {
	if len(os.Args) < 2 {
		fmt.Fprintln(os.Stderr, "usage: simcheck episode|run|replay|selftest ...")
		os.Exit(2)
	}
	switch os.Args[1] {
	case "episode":
		os.Exit(cmdEpisode())
	case "run":
		os.Exit(cmdRun(os.Args[2:]))
	case "replay":
		os.Exit(cmdReplay(os.Args[2:]))
	case "selftest":
		os.Exit(cmdSelftest(os.Args[2:]))
	case "catalog":
		os.Exit(cmdCatalog(os.Args[2:]))
	case "expand":
		os.Exit(cmdExpand(os.Args[2:]))
	}
	fmt.Fprintln(os.Stderr, "unknown subcommand", os.Args[1])
	os.Exit(2)
}

// cmdEpisode runs scenarios read from stdin (one JSON document per line) and
// prints one result line per scenario. The library's own chatter on stdout
// is sent to /dev/null.
func cmdEpisode() int {
	out := os.Stdout
	devnull, err := os.OpenFile("/dev/null", os.O_WRONLY, 0)
	if err == nil {
		os.Stdout = devnull
	}
	dec := json.NewDecoder(os.Stdin)
	enc := json.NewEncoder(out)
	for {
		var sc Scenario
		if err := dec.Decode(&sc); err != nil {
			if err == io.EOF {
				return 0
			}
			fmt.Fprintln(os.Stderr, "simcheck episode: bad scenario:", err)
			return 2
		}
		res := runEpisode(&sc)
		if err := enc.Encode(res); err != nil {
			return 2
		}
		if res.Verdict != "ok" {
			// a failed episode may leave blocked goroutines behind: never
			// run another one in this process
			return 0
		}
	}
}
