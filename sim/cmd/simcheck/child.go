package main

// Running episodes in child processes.

import (
	"bufio"
	"bytes"
	"context"
	"encoding/json"
	"fmt"
	"os"
	"os/exec"
	"path/filepath"
	"strings"
	"sync"
	"time"
)

type raceReport struct {
	Text       string
	Summary    string
	InSdfx     bool
	Harness    bool
	ThirdParty bool // both accesses are inside a library sdfx calls (recorded, not a verdict)
	TopFuncs   []string
}

type runOut struct {
	sc      *Scenario
	res     *Result
	stderr  string
	crashed bool
	timeout bool
	races   []raceReport
	wall    time.Duration
}

func selfDir() string {
	exe, err := os.Executable()
	if err != nil {
		return "/verif/bin"
	}
	return filepath.Dir(exe)
}

func childBinary(race bool) string {
	if race {
		return filepath.Join(selfDir(), "simcheck-race")
	}
	return filepath.Join(selfDir(), "simcheck")
}

func cpuList(n, slot int) string {
	total := 16
	if n <= 0 || n >= total {
		return ""
	}
	var parts []string
	for i := 0; i < n; i++ {
		parts = append(parts, fmt.Sprint((slot*n+i)%total))
	}
	return strings.Join(parts, ",")
}

// runChild runs a batch of scenarios (same Env.CPUs / Env.Race) in one child.
func runChild(scs []*Scenario, slot int, perEpisode time.Duration) []runOut {
	outs := make([]runOut, 0, len(scs))
	if len(scs) == 0 {
		return outs
	}
	env := scs[0].Env
	bin := childBinary(env.Race)
	args := []string{"episode"}
	var cmd *exec.Cmd
	ctx, cancel := context.WithTimeout(context.Background(), perEpisode*time.Duration(len(scs))+10*time.Second)
	defer cancel()
	if _, terr := exec.LookPath("taskset"); terr != nil {
		env.CPUs = 0 // no way to restrict the CPU set: run with all CPUs
	}
	if cl := cpuList(env.CPUs, slot); cl != "" {
		cmd = exec.CommandContext(ctx, "taskset", append([]string{"-c", cl, bin}, args...)...)
	} else {
		cmd = exec.CommandContext(ctx, bin, args...)
	}
	cmd.Env = append(os.Environ(),
		"GORACE=halt_on_error=0 atexit_sleep_ms=0 exitcode=0",
		"GOTRACEBACK=all",
		"VERIF_EPISODE_WALL="+perEpisode.String(),
	)
	if tz := scs[0].Env.TZ; tz != "" {
		// the process's clock reads another calendar day (the library has no clock seam;
		// the time zone is the one part of "now" a child process can be given)
		cmd.Env = append(cmd.Env, "TZ="+tz)
	}
	var in bytes.Buffer
	enc := json.NewEncoder(&in)
	for _, sc := range scs {
		enc.Encode(sc)
	}
	cmd.Stdin = &in
	var stderr bytes.Buffer
	cmd.Stderr = &stderr
	stdout, err := cmd.StdoutPipe()
	if err != nil {
		return []runOut{{sc: scs[0], crashed: true, stderr: err.Error()}}
	}
	t0 := time.Now()
	if err := cmd.Start(); err != nil {
		return []runOut{{sc: scs[0], crashed: true, stderr: "start: " + err.Error()}}
	}
	rd := bufio.NewReaderSize(stdout, 1<<20)
	last := t0
	for len(outs) < len(scs) {
		line, err := rd.ReadBytes('\n')
		if len(line) > 0 {
			var res Result
			if jerr := json.Unmarshal(line, &res); jerr == nil {
				now := time.Now()
				outs = append(outs, runOut{sc: scs[len(outs)], res: &res, wall: now.Sub(last)})
				last = now
			}
		}
		if err != nil {
			break
		}
	}
	werr := cmd.Wait()
	se := stderr.String()
	timedOut := ctx.Err() != nil
	if len(outs) > 0 {
		// stderr (race reports, library chatter) belongs to the batch; with
		// batches of one it belongs to the episode
		outs[len(outs)-1].stderr = se
	}
	done := len(outs)
	if done < len(scs) {
		lastOK := done > 0 && outs[done-1].res.Verdict != "ok"
		if !lastOK {
			// the child died or was killed while running scs[done]
			_ = werr
			outs = append(outs, runOut{sc: scs[done], crashed: !timedOut, timeout: timedOut, stderr: se, wall: time.Since(last)})
		}
	}
	for i := range outs {
		if outs[i].stderr != "" {
			outs[i].races = parseRaces(outs[i].stderr)
		}
	}
	return outs
}

func parseRaces(se string) []raceReport {
	var out []raceReport
	parts := strings.Split(se, "==================")
	for _, p := range parts {
		if !strings.Contains(p, "WARNING: DATA RACE") {
			continue
		}
		r := raceReport{Text: strings.TrimSpace(p)}
		lines := strings.Split(r.Text, "\n")
		// The frames of an access follow a line ending in ":" ("Write at ... by
		// goroutine N:"). An access belongs to the package of its first frame
		// that is not in the Go runtime (runtime map/slice helpers report on
		// behalf of their caller).
		grab := false
		var owners []string
		ownerSet := false
		for li, ln := range lines {
			t := strings.TrimSpace(ln)
			if strings.HasSuffix(t, ":") && (strings.Contains(t, " at 0x") || strings.HasPrefix(t, "Previous ")) {
				grab = true
				ownerSet = false
				continue
			}
			if strings.HasPrefix(t, "Goroutine ") {
				grab = false
			}
			if t == "" {
				grab = false
				continue
			}
			if grab && !strings.HasPrefix(t, "/") && strings.HasSuffix(t, ")") {
				fn := t
				if i := strings.LastIndex(fn, "("); i > 0 {
					fn = fn[:i]
				}
				// a closure of the library that the compiler inlined into a caller in
				// package main carries the caller's name and the library's file
				if li+1 < len(lines) && fileInSdfx(strings.TrimSpace(lines[li+1])) && !strings.Contains(fn, "github.com/deadsy/sdfx/") {
					fn = "github.com/deadsy/sdfx/(inlined)" + fn
				}
				r.TopFuncs = append(r.TopFuncs, fn)
				if !ownerSet && !isStdlibFrame(fn) {
					ownerSet = true
					owners = append(owners, fn)
				}
			}
		}
		for _, o := range owners {
			if strings.Contains(o, "github.com/deadsy/sdfx/") && !strings.HasSuffix(o, ".simYield") {
				r.InSdfx = true
			}
		}
		if !r.InSdfx {
			// all access owners in the harness => harness bug; otherwise the
			// accesses belong to a third-party library that sdfx calls
			r.Harness = true
			for _, o := range owners {
				if !strings.HasPrefix(o, "verif/sim/") && !strings.HasPrefix(o, "main.") {
					r.Harness = false
					r.ThirdParty = true
				}
			}
			if len(owners) == 0 {
				r.Harness = true
			}
		}
		if r.ThirdParty && len(owners) > 0 {
			r.Summary = "third-party: " + owners[0]
		}
		// summary: the first sdfx frames of the accesses
		var sf []string
		for _, f := range r.TopFuncs {
			if strings.Contains(f, "github.com/deadsy/sdfx/") {
				dup := false
				for _, g := range sf {
					if g == f {
						dup = true
					}
				}
				if !dup {
					sf = append(sf, strings.TrimPrefix(f, "github.com/deadsy/sdfx/"))
				}
			}
			if len(sf) >= 3 {
				break
			}
		}
		if !r.ThirdParty {
			r.Summary = strings.Join(sf, " / ")
		}
		out = append(out, r)
	}
	return out
}

// fileInSdfx: the position line of a frame ("/path/sdf/utils.go:152 +0x4e") names a
// file of the library tree (not the module cache, not the harness).
func fileInSdfx(pos string) bool {
	if !strings.HasPrefix(pos, "/") || strings.Contains(pos, "/pkg/mod/") || strings.Contains(pos, "/sim/cmd/") || strings.Contains(pos, "/sim/simcore/") {
		return false
	}
	if i := strings.Index(pos, ".go:"); i > 0 {
		pos = pos[:i]
	}
	for _, d := range []string{"/sdf/", "/render/", "/render/dc/", "/obj/", "/vec/"} {
		if i := strings.LastIndex(pos, d); i >= 0 && !strings.Contains(pos[:i], "/src/") {
			return true
		}
	}
	return false
}

// isStdlibFrame: runtime and standard-library frames act on behalf of their
// caller (a bufio.Writer that two goroutines of the library share is the
// library's race, not bufio's). A package path whose first element has no dot
// is standard library, except the harness's own module and package main.
func isStdlibFrame(fn string) bool {
	if strings.HasPrefix(fn, "verif/sim/") || strings.HasPrefix(fn, "main.") {
		return false
	}
	first := fn
	if i := strings.IndexByte(first, '/'); i >= 0 {
		first = first[:i]
	} else if i := strings.IndexByte(first, '.'); i >= 0 {
		return true // single-element path: bufio.(*Writer).Write, os.(*File).Write, ...
	}
	return !strings.Contains(first, ".")
}

// crashInfo classifies a child that died without reporting.
func crashInfo(se string) (class, msg string, inSdfx bool) {
	idx := strings.Index(se, "panic: ")
	class = "crash"
	if i := strings.Index(se, "fatal error: "); i >= 0 && (idx < 0 || i < idx) {
		idx = i
		class = "fatal"
	} else if idx >= 0 {
		class = "panic"
	}
	if idx < 0 {
		return "crash", firstLines(se, 6), false
	}
	tail := se[idx:]
	// first goroutine block after the message
	end := strings.Index(tail, "\n\ngoroutine ")
	blk := tail
	if end > 0 {
		if e2 := strings.Index(tail[end+2:], "\n\n"); e2 > 0 {
			blk = tail[:end+2+e2]
		}
	}
	inSdfx = strings.Contains(blk, "github.com/deadsy/sdfx/")
	return class, firstLines(blk, 16), inSdfx
}

// runAll fans scenarios out over par workers; batch scenarios per child.
func runAll(scs []*Scenario, par, batch int, perEpisode time.Duration, deadline time.Time, progress func(done int)) []runOut {
	var mu sync.Mutex
	queue := make([][]*Scenario, 0)
	// group by env so that a child has one affinity / binary
	byEnv := map[string][]*Scenario{}
	var order []string
	for _, sc := range scs {
		b := batch
		k := fmt.Sprintf("%d/%v", sc.Env.CPUs, sc.Env.Race)
		if sc.Env.Race || freshProcess(sc) {
			b = 1
		}
		if b == 1 {
			queue = append(queue, []*Scenario{sc})
			continue
		}
		if _, ok := byEnv[k]; !ok {
			order = append(order, k)
		}
		byEnv[k] = append(byEnv[k], sc)
		if len(byEnv[k]) >= b {
			queue = append(queue, byEnv[k])
			byEnv[k] = nil
		}
	}
	for _, k := range order {
		if len(byEnv[k]) > 0 {
			queue = append(queue, byEnv[k])
		}
	}
	var results []runOut
	var wg sync.WaitGroup
	done := 0
	for w := 0; w < par; w++ {
		wg.Add(1)
		go func(slot int) {
			defer wg.Done()
			for {
				mu.Lock()
				if len(queue) == 0 || (!deadline.IsZero() && time.Now().After(deadline)) {
					mu.Unlock()
					return
				}
				c := queue[0]
				queue = queue[1:]
				mu.Unlock()
				outs := runChild(c, slot, perEpisode)
				mu.Lock()
				results = append(results, outs...)
				done += len(outs)
				if len(outs) < len(c) {
					// the child stopped early (a failed episode): re-queue the rest
					queue = append(queue, c[len(outs):])
				}
				if progress != nil {
					progress(done)
				}
				mu.Unlock()
			}
		}(w)
	}
	wg.Wait()
	return results
}

// freshProcess: episodes that touch process-global library state (the worker
// pool, the global channel) get a process of their own.
func freshProcess(sc *Scenario) bool {
	for _, g := range sc.Groups {
		for _, j := range g {
			switch j.Kind {
			case "mcu":
				return true
			}
			if j.Fault.Kind != "" {
				return true
			}
		}
	}
	return sc.Census
}
