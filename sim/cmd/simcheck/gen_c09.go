package main

import (
	"fmt"
	"strings"

	"verif/sim/simcore"
)

// C09: the same model/renderer/resolution/sink gives the identical output in
// every execution: canonical (fresh process, fifo, no optional yields) versus
// seeded schedules, GOMAXPROCS, worker counts, preceding and concurrent renders.

type c09sig struct {
	kind, model, sink string
	cells             int
}

func (s c09sig) job(id int) Job {
	return Job{ID: id, Kind: s.kind, Model: s.model, Cells: s.cells, Sink: s.sink}
}

func (s c09sig) key() string { return fmt.Sprintf("%s/%s/%d/%s", s.kind, s.model, s.cells, s.sink) }

func c09catalogue(r *simcore.RNG, n int) []c09sig {
	var out []c09sig
	seen := map[string]bool{}
	// the uniform renderer (the one with the worker pool) dominates
	for len(out) < n {
		var s c09sig
		switch r.Intn(10) {
		case 0, 1, 2, 3, 4:
			s = c09sig{"mcu", pick(r, model3Names), pick(r, []string{"tri", "stl", "3mf"}), pick(r, []int{9, 12, 14, 16, 18, 20})} // >= 2..4 batches of 100 points per layer
			if r.Intn(5) == 0 {
				s.model = pick(r, model3Variants)
			}
		case 5, 6:
			s = c09sig{"mco", pick(r, model3Names), pick(r, []string{"tri", "stl", "3mf"}), pick(r, []int{8, 12, 16})}
			if r.Intn(3) == 0 {
				s.model = pick(r, model3Variants)
			}
		case 7:
			s = c09sig{pick(r, []string{"msu", "msq"}), pick(r, model2Names), pick(r, []string{"dxf", "svg"}), pick(r, []int{16, 24, 40})}
		case 8:
			s = c09sig{"dc2", pick(r, model2Names), pick(r, []string{"dxf", "svg"}), pick(r, []int{12, 20})}
		default:
			s = c09sig{pick(r, []string{"dc3v2", "dc3v1"}), pick(r, []string{"sphere-box", "csg"}), pick(r, []string{"tri", "stl"}), pick(r, []int{6, 8})}
		}
		if !seen[s.key()] {
			seen[s.key()] = true
			out = append(out, s)
		}
	}
	return out
}

func planC09(tier string, root *simcore.RNG) *plan {
	pl := &plan{prop: "C09", level: "exploration", batch: 1}
	pl.post = c09post
	if tier == "replay" {
		return pl
	}
	nsig, nvar := 14, 130
	if tier == "thorough" {
		nsig, nvar = 70, 3600
	}
	cat := c09catalogue(root.Fork(), nsig)
	// the two states of the models that have setters, for both 3D marching renderers
	type pairT struct{ a, b c09sig }
	var pairs []pairT
	{
		r := root.Fork()
		have := map[string]bool{}
		for _, s := range cat {
			have[s.key()] = true
		}
		for _, kind := range []string{"mco", "mcu"} {
			for _, v := range model3Variants {
				base, _ := splitVariant(v)
				cells := pick(r, []int{7, 8, 9, 10})
				sink := pick(r, []string{"tri", "stl", "3mf"})
				a := c09sig{kind, base, sink, cells}
				b := c09sig{kind, v, sink, cells}
				for _, s := range []c09sig{a, b} {
					if !have[s.key()] {
						have[s.key()] = true
						cat = append(cat, s)
					}
				}
				pairs = append(pairs, pairT{a, b}, pairT{b, a})
			}
		}
	}
	// canonical executions
	for _, s := range cat {
		r := root.Fork()
		sc := &Scenario{Prop: "C09", Family: "render", Seed: r.Uint64(), Groups: [][]Job{{s.job(1)}},
			Sched: Sched{Policy: "fifo"}, Sites: map[string]uint32{}, Env: Env{GOMAXPROCS: 16, CPUs: 16}, Note: "canonical"}
		pl.scenarios = append(pl.scenarios, sc)
	}
	var mcu []c09sig
	for _, s := range cat {
		if s.kind == "mcu" {
			mcu = append(mcu, s)
		}
	}
	for i := 0; i < nvar; i++ {
		r := root.Fork()
		sc := &Scenario{Prop: "C09", Family: "render", Seed: r.Uint64(), Sites: map[string]uint32{}}
		sc.Env = Env{GOMAXPROCS: pick(r, []int{1, 2, 4, 16}), CPUs: pick(r, []int{1, 2, 4, 16, 16})}
		// "on every run": the calendar day of the process's clock (one zone 14 h ahead of
		// UTC, one 12 h behind: at any moment one of them is on another day than the
		// canonical execution), and memory pressure from the rest of the program
		sc.Env.TZ = pick(r, []string{"", "", "Pacific/Kiritimati", "Etc/GMT+12"})
		if r.Intn(8) == 0 {
			sc.GCStormMs = 2 + r.Intn(8)
		}
		id := 0
		// history: 0..3 preceding renders, then a group of 1..3 concurrent jobs
		pre := 0
		if r.Intn(3) == 0 {
			pre = 1 + r.Intn(3)
		}
		for k := 0; k < pre; k++ {
			id++
			sc.Groups = append(sc.Groups, []Job{pick(r, cat).job(id)})
		}
		conc := 1
		if r.Intn(3) == 0 {
			conc = 2 + r.Intn(2)
		}
		var g []Job
		sameSink := conc > 1 && r.Intn(2) == 0 // concurrent writers of one format share that writer's code and globals
		firstSink := ""
		for k := 0; k < conc; k++ {
			id++
			s := pick(r, cat)
			if len(mcu) > 0 && r.Intn(2) == 0 {
				s = pick(r, mcu)
			}
			if sameSink && k > 0 {
				var same []c09sig
				for _, c := range cat {
					if c.sink == firstSink {
						same = append(same, c)
					}
				}
				if len(same) > 0 {
					s = pick(r, same)
				}
			}
			if k == 0 {
				firstSink = s.sink
			}
			g = append(g, s.job(id))
		}
		// concurrent exports of one part into several formats: same directory, same base name
		if conc > 1 && r.Intn(2) == 0 {
			seenSink := map[string]bool{}
			for k := range g {
				if g[k].Sink != "tri" && !seenSink[g[k].Sink] {
					seenSink[g[k].Sink] = true
					g[k].Name = "=part.EXT"
				}
			}
		}
		sc.Groups = append(sc.Groups, g)
		// a program that keeps its renderer values (and its model, changed through
		// setters between renders) in variables: every job takes them from the
		// episode's pool; the history then renders the same base model in two states
		if r.Intn(3) == 0 {
			for gi := range sc.Groups {
				for ji := range sc.Groups[gi] {
					sc.Groups[gi][ji].Share = true
				}
			}
			if r.Intn(2) == 0 {
				// prepend the other state of a job's model, same renderer and resolution
				last := sc.Groups[len(sc.Groups)-1][0]
				base, variant := splitVariant(last.Model)
				other := ""
				for _, v := range model3Variants {
					if b, _ := splitVariant(v); b == base {
						other = v
					}
				}
				if variant != "" {
					other = base
				}
				if other != "" && (last.Kind == "mco" || last.Kind == "mcu") {
					id++
					first := Job{ID: id, Kind: last.Kind, Model: other, Cells: last.Cells, Sink: "tri", Share: true}
					sc.Groups = append([][]Job{{first}}, sc.Groups...)
					if len(sc.Groups[len(sc.Groups)-1]) > 1 {
						sc.Groups[len(sc.Groups)-1] = sc.Groups[len(sc.Groups)-1][:1]
					}
				}
			}
		}
		// perturbation: park evaluations (pre = before the value is computed,
		// post = before it is stored), writes, the batch sender, the consumers
		mod := pick(r, []uint32{1, 2, 4, 8, 16, 64})
		heavy := 0
		for gi := range sc.Groups {
			for ji := range sc.Groups[gi] {
				j := &sc.Groups[gi][ji]
				j.EvalMod = mod
				if j.Share && j.Kind != "mcu" {
					j.EvalMod = 0 // sequential renderers: hand the model object itself to the renderer
				}
				heavy += j.Cells * j.Cells * j.Cells
			}
		}
		if heavy > 6000 && mod < 4 {
			mod = 4
		}
		if heavy > 12000 && mod < 8 {
			mod = 8
		}
		sc.Sites["eval.pre"] = mod
		sc.Sites["eval.post"] = mod
		// a third of the episodes also park inside the model: at yielding wrappers
		// around the leaves of the composite, i.e. in the middle of a combinator's Evaluate
		if r.Intn(3) == 0 {
			for gi := range sc.Groups {
				for ji := range sc.Groups[gi] {
					if !sc.Groups[gi][ji].Share {
						sc.Groups[gi][ji].Leaves = true
					}
				}
			}
			lm := pick(r, []uint32{1, 2, 4})
			sc.Sites["leaf.pre"] = lm
			sc.Sites["leaf.post"] = lm
		}
		// keep the episode below ~40000 scheduling steps (about 20 s on the -race build):
		// thin the leaf hooks first, then the evaluation hooks
		{
			est := func() int {
				n := 2 * heavy / int(max(sc.Sites["eval.pre"], 1))
				if lm := sc.Sites["leaf.pre"]; lm > 0 {
					n += 8 * heavy / int(lm)
				}
				return n
			}
			for est() > 40000 && sc.Sites["leaf.pre"] > 0 && sc.Sites["leaf.pre"] < 64 {
				sc.Sites["leaf.pre"] *= 2
				sc.Sites["leaf.post"] = sc.Sites["leaf.pre"]
			}
			for est() > 40000 && sc.Sites["eval.pre"] < 256 {
				sc.Sites["eval.pre"] *= 2
				sc.Sites["eval.post"] = sc.Sites["eval.pre"]
			}
		}
		sc.Sites["write"] = pick(r, []uint32{1, 4, 32})
		if r.Intn(4) == 0 {
			// the output paths already hold something else (an older, larger export)
			for gi := range sc.Groups {
				for ji := range sc.Groups[gi] {
					if sc.Groups[gi][ji].Sink != "tri" {
						sc.Groups[gi][ji].Pre = pick(r, []int{84, 5000, 2000000})
					}
				}
			}
		}
		if r.Intn(2) == 0 {
			sc.Sites["auto"] = pick(r, []uint32{1, 2, 4})
			// models with a lock per evaluation (the 2D cache, several lookups per point
			// under rotation) park at every lock operation: thin the automatic hooks so
			// that the episode stays below ~30000 steps
			locks := 0
			for _, g := range sc.Groups {
				for _, j := range g {
					if strings.Contains(j.Model, "cache") {
						locks += 6 * j.Cells * j.Cells * j.Cells
					}
				}
			}
			for locks/int(sc.Sites["auto"]) > 30000 && sc.Sites["auto"] < 64 {
				sc.Sites["auto"] *= 2
			}
		}
		sc.Sites["close"] = 1
		for _, h := range []string{"go.start", "worker.start", "mc.sent", "cons.tri", "cons.stl", "cons.stl.flush", "cons.3mf", "cons.3mf.encode", "cons.dxf", "cons.dxf.save", "cons.svg", "cons.svg.save"} {
			if r.Intn(4) != 0 {
				sc.Sites[h] = 1
			}
		}
		victims := []string{"consumer", "renderer", "evalpost", fmt.Sprintf("eval:%d", r.Intn(8)), fmt.Sprintf("eval:%d", r.Intn(8))}
		if conc > 1 {
			victims = append(victims, fmt.Sprintf("job:%d", id), fmt.Sprintf("job:%d", id-1))
		}
		sc.Sched = genSched(r, victims)
		// concurrent renders: half of them on the -race build, where sharing
		// between the jobs' goroutines is judged by happens-before as well
		if conc > 1 && r.Intn(3) != 0 {
			sc.Env.Race = true
		}
		pl.scenarios = append(pl.scenarios, sc)
	}
	// configuration sweep: one signature of every renderer kind under every CPU count
	// (= runtime.NumCPU, worker pool size) and two GOMAXPROCS values, unperturbed
	{
		r0 := root.Fork()
		have := map[string]bool{}
		for _, s := range cat {
			have[s.key()] = true
		}
		kinds := []c09sig{
			{"mcu", pick(r0, model3Names), "tri", 12}, {"mco", pick(r0, model3Names), "stl", 12},
			{"msu", pick(r0, model2Names), "svg", 24}, {"msq", pick(r0, model2Names), "dxf", 24}, {"msq", pick(r0, model2Names), "svg", 40},
			{"msu", pick(r0, model2Names), "dxf", 64 + r0.Intn(64)}, {"mcu", pick(r0, model3Names), "stl", 26},
			{"dc2", pick(r0, model2Names), "dxf", 16}, {"dc3v2", "sphere-box", "tri", 6}, {"dc3v1", "csg", "stl", 6},
		}
		cpus := []int{1, 2, 3, 4, 8, 16}
		if tier != "thorough" {
			cpus = []int{1, 2, 3, 8}
		}
		for _, s := range kinds {
			if !have[s.key()] {
				have[s.key()] = true
				cat = append(cat, s)
				pl.scenarios = append(pl.scenarios, &Scenario{Prop: "C09", Family: "render", Seed: r0.Uint64(), Groups: [][]Job{{s.job(1)}},
					Sched: Sched{Policy: "fifo"}, Sites: map[string]uint32{}, Env: Env{GOMAXPROCS: 16, CPUs: 16}, Note: "canonical"})
			}
			for _, c := range cpus {
				for _, gmp := range []int{1, 16} {
					r := root.Fork()
					j := s.job(1)
					sites := map[string]uint32{"close": 1, "go.start": 1, "worker.start": 1, "auto": 2}
					for _, hs := range sinkSites(s.sink) {
						sites[hs] = 1
					}
					pl.scenarios = append(pl.scenarios, &Scenario{Prop: "C09", Family: "render", Seed: r.Uint64(), Groups: [][]Job{{j}},
						Sites: sites, Sched: Sched{Policy: pick(r, []string{"uniform", "lifo", "fifo"}), Seed: r.Uint64()}, Env: Env{GOMAXPROCS: gmp, CPUs: c}, Note: "config-sweep"})
				}
			}
		}
	}
	// slow consumers in real time: renders with many batches (2D at 100..160 cells, 3D at
	// 24..32) whose writer goroutine sleeps 3..6 ms at every k-th arrival at a hook site
	{
		r0 := root.Fork()
		have := map[string]bool{}
		for _, s := range cat {
			have[s.key()] = true
		}
		list := []c09sig{
			{"msu", pick(r0, model2Names), "svg", 100 + r0.Intn(60)}, {"msq", pick(r0, model2Names), "dxf", 100 + r0.Intn(60)},
			{"msu", pick(r0, model2Names), "dxf", 100 + r0.Intn(60)},
			{"msq", pick(r0, model2Names), "svg", 100 + r0.Intn(60)}, {"dc2", pick(r0, model2Names), "dxf", 100 + r0.Intn(60)},
			{"mco", pick(r0, []string{"sphere-box", "csg", "cube"}), "stl", 24 + r0.Intn(8)}, {"mcu", pick(r0, []string{"sphere-box", "csg", "cube"}), "stl", 24 + r0.Intn(8)},
		}
		reps := 2
		if tier == "thorough" {
			reps = 12
		}
		for _, s := range list {
			if !have[s.key()] {
				have[s.key()] = true
				cat = append(cat, s)
				pl.scenarios = append(pl.scenarios, &Scenario{Prop: "C09", Family: "render", Seed: r0.Uint64(), Groups: [][]Job{{s.job(1)}},
					Sched: Sched{Policy: "fifo"}, Sites: map[string]uint32{}, Env: Env{GOMAXPROCS: 16, CPUs: 16}, Note: "canonical"})
			}
			for k := 0; k < reps; k++ {
				r := root.Fork()
				sites := map[string]uint32{"close": 1, "go.start": 1}
				for _, hs := range sinkSites(s.sink) {
					sites[hs] = 1
				}
				pl.scenarios = append(pl.scenarios, &Scenario{Prop: "C09", Family: "render", Seed: r.Uint64(), Groups: [][]Job{{s.job(1)}},
					Sites: sites, Sched: Sched{Policy: pick(r, []string{"fifo", "uniform", "lifo"}), Seed: r.Uint64()},
					Env: Env{GOMAXPROCS: pick(r, []int{1, 2, 16}), CPUs: pick(r, []int{1, 4, 16})}, Note: "slow-consumer",
					ConsStallMs: 3 + r.Intn(4), ConsStallEvery: pick(r, []int{1, 2, 3}), StepCap: 4000000})
			}
		}
		// slow evaluations in real time: one evaluation in the middle of the render takes
		// 2.5 s (one episode per signature) or 11 s (one episode; thorough: one per signature)
		for si, s := range list {
			for _, ms := range []int{2500, 11000} {
				if ms > 5000 && tier != "thorough" && si != 6 {
					continue
				}
				r := root.Fork()
				j := s.job(1)
				j.EvalStallMs, j.EvalStallAt = ms, 1500+r.Intn(4000)
				sites := map[string]uint32{"close": 1, "go.start": 1}
				for _, hs := range sinkSites(s.sink) {
					sites[hs] = 1
				}
				pl.scenarios = append(pl.scenarios, &Scenario{Prop: "C09", Family: "render", Seed: r.Uint64(), Groups: [][]Job{{j}},
					Sites: sites, Sched: Sched{Policy: "fifo"}, Env: Env{GOMAXPROCS: pick(r, []int{1, 4, 16}), CPUs: pick(r, []int{4, 16})},
					Note: "slow-evaluation", StepCap: 4000000})
			}
		}
	}
	// trigger sweeps over the renderers' own synchronisation: the consumer (or the
	// evaluations about to store their value) is held back and let through exactly when
	// another goroutine is parked at the k-th distinct instrumented code location
	{
		r0 := root.Fork()
		have := map[string]bool{}
		for _, s := range cat {
			have[s.key()] = true
		}
		plain3 := []string{"sphere-box", "csg", "cube", "array", "multi-intersect"} // (models without a lock per evaluation: the sweep is about the renderers)
		list := []c09sig{{"mcu", pick(r0, plain3), "stl", 12}, {"mcu", pick(r0, plain3), "3mf", 10}, {"msq", pick(r0, model2Names), "dxf", 60}, {"mco", pick(r0, plain3), "stl", 16}}
		kmax := 12
		if tier == "thorough" {
			kmax = 20
		}
		for _, s := range list {
			if !have[s.key()] {
				have[s.key()] = true
				cat = append(cat, s)
				pl.scenarios = append(pl.scenarios, &Scenario{Prop: "C09", Family: "render", Seed: r0.Uint64(), Groups: [][]Job{{s.job(1)}},
					Sched: Sched{Policy: "fifo"}, Sites: map[string]uint32{}, Env: Env{GOMAXPROCS: 16, CPUs: 16}, Note: "canonical"})
			}
			for k := 1; k <= kmax; k++ {
				r := root.Fork()
				j := s.job(1)
				vic := "consumer"
				sites := map[string]uint32{"close": 1, "go.start": 1, "worker.start": 1, "auto": 1, "write": 8, "mc.sent": 1}
				if s.kind == "mcu" && k%2 == 0 {
					vic = "evalpost"
					j.EvalMod = 8
					sites["eval.pre"], sites["eval.post"] = 8, 8
				}
				for _, hs := range sinkSites(s.sink) {
					sites[hs] = 1
				}
				pl.scenarios = append(pl.scenarios, &Scenario{Prop: "C09", Family: "render", Seed: r.Uint64(), Groups: [][]Job{{j}},
					Sites: sites, Sched: Sched{Policy: "starve", Victim: vic, Trig: (k + 1) / 2, Seed: r.Uint64()},
					Env: Env{GOMAXPROCS: pick(r, []int{1, 4, 16}), CPUs: pick(r, []int{4, 16})}, Note: "trigger-sweep", StepCap: 4000000})
			}
		}
	}
	// resolutions at which caches, tables and pools reach their limits (an octree render of
	// several million distance-cache entries, a uniform render of a few million samples):
	// canonical and one more fresh process each
	{
		r0 := root.Fork()
		list := []c09sig{{"mco", "cube", "tri", 400}, {"mcu", "sphere-box", "tri", 150}}
		if tier == "thorough" {
			list = append(list, c09sig{"mco", "cube", "tri", 540}, c09sig{"mco", "sphere-box", "stl", 450}, c09sig{"mco", "csg", "tri", 420}, c09sig{"msq", "poly", "dxf", 2000}, c09sig{"msu", "circle-box", "dxf", 1500})
		}
		for _, s := range list {
			cat = append(cat, s)
			pl.scenarios = append(pl.scenarios, &Scenario{Prop: "C09", Family: "render", Seed: r0.Uint64(), Groups: [][]Job{{s.job(1)}},
				Sched: Sched{Policy: "fifo"}, Sites: map[string]uint32{}, Env: Env{GOMAXPROCS: 16, CPUs: 16}, Note: "canonical", StepCap: 8000000})
			r := root.Fork()
			pl.scenarios = append(pl.scenarios, &Scenario{Prop: "C09", Family: "render", Seed: r.Uint64(), Groups: [][]Job{{s.job(1)}},
				Sites: map[string]uint32{"close": 1}, Sched: Sched{Policy: "fifo"},
				Env: Env{GOMAXPROCS: pick(r, []int{2, 4, 16}), CPUs: pick(r, []int{4, 16})}, Note: "high-resolution", StepCap: 8000000})
		}
	}
	// a writer whose final step takes 11 s of real time: the file must be complete, and
	// the same as ever, when the call returns
	{
		r0 := root.Fork()
		have := map[string]bool{}
		for _, s := range cat {
			have[s.key()] = true
		}
		finals := map[string]string{"stl": "cons.stl.flush", "3mf": "cons.3mf.encode", "dxf": "cons.dxf.save", "svg": "cons.svg.save"}
		list := []c09sig{{"mco", pick(r0, model3Names), "stl", 12}, {"mcu", pick(r0, model3Names), "3mf", 10}, {"msq", pick(r0, model2Names), "dxf", 30}, {"msu", pick(r0, model2Names), "svg", 30}}
		for _, s := range list {
			if !have[s.key()] {
				have[s.key()] = true
				cat = append(cat, s)
				pl.scenarios = append(pl.scenarios, &Scenario{Prop: "C09", Family: "render", Seed: r0.Uint64(), Groups: [][]Job{{s.job(1)}},
					Sched: Sched{Policy: "fifo"}, Sites: map[string]uint32{}, Env: Env{GOMAXPROCS: 16, CPUs: 16}, Note: "canonical"})
			}
			r := root.Fork()
			pl.scenarios = append(pl.scenarios, &Scenario{Prop: "C09", Family: "render", Seed: r.Uint64(), Groups: [][]Job{{s.job(1)}},
				Sites: map[string]uint32{"close": 1}, Sched: Sched{Policy: "fifo"}, Env: Env{GOMAXPROCS: pick(r, []int{1, 4, 16}), CPUs: 16},
				Note: "slow-final-step", ConsStallMs: 11000, ConsStallEvery: 1, ConsStallSite: finals[s.sink]})
		}
	}
	// every resolution of the uniform renderer from 2 to 32 (thorough: 48) cells on a cube:
	// layer sizes that are and are not multiples of the worker batch size (a barrier
	// that is skipped when the last batch of a layer is empty)
	{
		top := 32
		if tier == "thorough" {
			top = 48
		}
		have := map[string]bool{}
		for _, s := range cat {
			have[s.key()] = true
		}
		for cells := 2; cells <= top; cells++ {
			r := root.Fork()
			s := c09sig{"mcu", "cube", pick(r, []string{"tri", "stl"}), cells}
			if have[s.key()] {
				continue
			}
			have[s.key()] = true
			cat = append(cat, s)
			pl.scenarios = append(pl.scenarios, &Scenario{Prop: "C09", Family: "render", Seed: r.Uint64(), Groups: [][]Job{{s.job(1)}},
				Sched: Sched{Policy: "fifo"}, Sites: map[string]uint32{}, Env: Env{GOMAXPROCS: 16, CPUs: 16}, Note: "canonical"})
			j := s.job(1)
			j.EvalMod = 16
			sites := map[string]uint32{"close": 1, "worker.start": 1, "mc.sent": 1, "eval.pre": 16, "eval.post": 16, "write": 16}
			for _, hs := range sinkSites(s.sink) {
				sites[hs] = 1
			}
			pl.scenarios = append(pl.scenarios, &Scenario{Prop: "C09", Family: "render", Seed: r.Uint64(), Groups: [][]Job{{j}},
				Sites: sites, Sched: genSched(r, []string{"evalpost", "consumer", fmt.Sprintf("eval:%d", r.Intn(8))}),
				Env: Env{GOMAXPROCS: pick(r, []int{1, 4, 16}), CPUs: pick(r, []int{2, 4, 16})}, Note: "resolution-sweep"})
		}
	}
	// trigger sweeps over two concurrent renders: the second render is held back (it has
	// not even started) and let through exactly when a goroutine of the first is parked
	// at the k-th distinct instrumented code location - e.g. while its writer is still
	// working through the last batch. On the -race build.
	{
		r0 := root.Fork()
		have := map[string]bool{}
		for _, s := range cat {
			have[s.key()] = true
		}
		a := c09sig{"mcu", pick(r0, []string{"sphere-box", "csg", "cube"}), "stl", 10}
		b := c09sig{"mco", pick(r0, []string{"sphere-box", "csg", "cube"}), "tri", 8}
		c := c09sig{"mcu", pick(r0, []string{"sphere-box", "csg", "cube"}), "3mf", 9}
		for _, s := range []c09sig{a, b, c} {
			if !have[s.key()] {
				have[s.key()] = true
				cat = append(cat, s)
				pl.scenarios = append(pl.scenarios, &Scenario{Prop: "C09", Family: "render", Seed: r0.Uint64(), Groups: [][]Job{{s.job(1)}},
					Sched: Sched{Policy: "fifo"}, Sites: map[string]uint32{}, Env: Env{GOMAXPROCS: 16, CPUs: 16}, Note: "canonical"})
			}
		}
		kmax := 22
		if tier == "thorough" {
			kmax = 30
		}
		for k := 1; k <= kmax; k++ {
			r := root.Fork()
			first, second := a, b
			if k%3 == 1 {
				first, second = b, c
			} else if k%3 == 2 {
				first, second = c, a
			}
			sites := map[string]uint32{"close": 1, "go.start": 1, "worker.start": 1, "auto": 1, "write": 16, "mc.sent": 1,
				"cons.tri": 1, "cons.stl": 1, "cons.stl.flush": 1, "cons.3mf": 1, "cons.3mf.encode": 1}
			pl.scenarios = append(pl.scenarios, &Scenario{Prop: "C09", Family: "render", Seed: r.Uint64(), Groups: [][]Job{{first.job(1), second.job(2)}},
				Sites: sites, Sched: Sched{Policy: "starve", Victim: "job:2", Trig: k, Seed: r.Uint64()},
				Env: Env{GOMAXPROCS: pick(r, []int{2, 4, 16}), CPUs: 16, Race: true}, Note: "trigger-sweep-pair", StepCap: 4000000})
		}
	}
	// the whole shape catalogue (every exported constructor and option): each entry is
	// built and rendered in a canonical process and again in other fresh processes
	// under another configuration - construction that depends on map iteration
	// order, addresses, the pid or the clock shows as a different render
	{
		r0 := root.Fork()
		names := catalogueNames()
		every, nv := 3, 1
		if tier == "thorough" {
			every, nv = 1, 3
		}
		rot := r0.Intn(every)
		// shapes with large internal tables (thousands of segments) are always in, at a
		// resolution that keeps every worker busy, in three more processes
		big := map[string]bool{"x-polygon2d-3000": true, "x-polygon2d-6000-extrude": true, "x-mesh2d-1500": true}
		for ni, name := range names {
			if ni%every != rot && !big[name] {
				continue
			}
			e := &catalogue[catalogueIndex[name]]
			cells := 9
			if e.Heavy {
				cells = 6
			}
			s := c09sig{pick(r0, []string{"mcu", "mcu", "mco"}), "cat:" + name, "tri", cells}
			if big[name] {
				s = c09sig{"mcu", "cat:" + name, "tri", 28}
			}
			cat = append(cat, s)
			pl.scenarios = append(pl.scenarios, &Scenario{Prop: "C09", Family: "render", Seed: r0.Uint64(), Groups: [][]Job{{s.job(1)}},
				Sched: Sched{Policy: "fifo"}, Sites: map[string]uint32{}, Env: Env{GOMAXPROCS: 16, CPUs: 16}, Note: "canonical"})
			nvv := nv
			if big[name] {
				nvv = 3
			}
			for k := 0; k < nvv; k++ {
				r := root.Fork()
				pl.scenarios = append(pl.scenarios, &Scenario{Prop: "C09", Family: "render", Seed: r.Uint64(), Groups: [][]Job{{s.job(1)}},
					Sites: map[string]uint32{"close": 1, "worker.start": 1, "mc.sent": 1, "cons.tri": 1},
					Sched: Sched{Policy: pick(r, []string{"uniform", "lifo", "fifo"}), Seed: r.Uint64()},
					Env:   Env{GOMAXPROCS: pick(r, []int{1, 4, 16}), CPUs: pick(r, []int{2, 4, 16})}, Note: "catalogue"})
			}
		}
	}
	// composites rendered by the worker pool with the evaluations parked inside
	// the model (between the children of a union / intersection / array)
	{
		r0 := root.Fork()
		have := map[string]bool{}
		for _, s := range cat {
			have[s.key()] = true
		}
		reps := 3
		if tier == "thorough" {
			reps = 40
		}
		type mc struct {
			model string
			cells int
		}
		// extrude-union2d is sensitive to how the lattice falls into the gap between
		// two of its children: several resolutions (19 is known to be a sensitive one)
		list := []mc{{"extrude-union2d", 19}, {"extrude-union2d", pick(r0, []int{17, 18, 20, 21, 22})},
			{"multi-intersect", pick(r0, []int{14, 16, 18})}, {"csg", pick(r0, []int{14, 16, 18})},
			{"sphere-box", pick(r0, []int{14, 16, 18})}, {"array", pick(r0, []int{14, 16, 18})},
			{"cache-extrude-rot", pick(r0, []int{12, 14, 16})}, {"cache-extrude", pick(r0, []int{12, 14, 16})}}
		for _, e := range list {
			model := e.model
			s := c09sig{"mcu", model, "tri", e.cells}
			if !have[s.key()] {
				have[s.key()] = true
				cat = append(cat, s)
				sc := &Scenario{Prop: "C09", Family: "render", Seed: r0.Uint64(), Groups: [][]Job{{s.job(1)}},
					Sched: Sched{Policy: "fifo"}, Sites: map[string]uint32{}, Env: Env{GOMAXPROCS: 16, CPUs: 16}, Note: "canonical"}
				pl.scenarios = append(pl.scenarios, sc)
			}
			for k := 0; k < reps; k++ {
				r := root.Fork()
				j := s.job(1)
				j.Leaves = true
				j.EvalMod = 1
				lm := pick(r, []uint32{2, 4})
				sc := &Scenario{Prop: "C09", Family: "render", Seed: r.Uint64(), Groups: [][]Job{{j}},
					Sites: map[string]uint32{"eval.pre": 8, "eval.post": 8, "leaf.pre": lm, "leaf.post": lm, "close": 1, "write": 32, "mc.sent": 1, "cons.tri": 1, "worker.start": 1},
					Sched: genSched(r, []string{"evalpost", fmt.Sprintf("eval:%d", r.Intn(8))}), Env: Env{GOMAXPROCS: pick(r, []int{1, 4, 16}), CPUs: pick(r, []int{4, 16})}, Note: "inside-model"}
				if sc.Sched.Policy == "fifo" || sc.Sched.Policy == "lifo" {
					sc.Sched.Policy = "uniform"
				}
				if k%3 == 2 { // and on the race build: sharing inside the model is then judged by happens-before
					sc.Env.Race = true
				}
				pl.scenarios = append(pl.scenarios, sc)
			}
		}
	}
	// a cached model kept in a variable and rendered at two resolutions one after the
	// other (the second render meets a cache filled at nearly-coinciding points)
	{
		r0 := root.Fork()
		have := map[string]bool{}
		for _, s := range cat {
			have[s.key()] = true
		}
		for _, model := range []string{"cache-extrude", "cache-extrude-rot"} {
			for _, pr := range [][2]int{{20, 60}, {40, 60}, {16, 48}} {
				kind := "mco"
				b := c09sig{kind, model, pick(r0, []string{"tri", "stl"}), pr[1]}
				if !have[b.key()] {
					have[b.key()] = true
					cat = append(cat, b)
					pl.scenarios = append(pl.scenarios, &Scenario{Prop: "C09", Family: "render", Seed: r0.Uint64(), Groups: [][]Job{{b.job(1)}},
						Sched: Sched{Policy: "fifo"}, Sites: map[string]uint32{}, Env: Env{GOMAXPROCS: 16, CPUs: 16}, Note: "canonical"})
				}
				j1 := Job{ID: 1, Kind: kind, Model: model, Cells: pr[0], Sink: "tri", Share: true}
				j2 := b.job(2)
				j2.Share = true
				pl.scenarios = append(pl.scenarios, &Scenario{Prop: "C09", Family: "render", Seed: r0.Uint64(), Groups: [][]Job{{j1}, {j2}},
					Sites: map[string]uint32{"close": 1, "write": 64, "go.start": 1, "cons.tri": 1, "cons.stl": 1}, Sched: Sched{Policy: "uniform", Seed: r0.Uint64()},
					Env: Env{GOMAXPROCS: pick(r0, []int{1, 4, 16}), CPUs: 16}, Note: "resolution-history"})
			}
		}
	}
	// histories of a program that keeps one renderer value and one model object
	// and switches the model between its two states with the library's setters
	for _, p := range pairs {
		r := root.Fork()
		j1, j2 := p.a.job(1), p.b.job(2)
		j1.Share, j2.Share = true, true
		j1.Sink = "tri"
		for _, j := range []*Job{&j1, &j2} {
			if j.Kind == "mcu" {
				j.EvalMod = 8
			}
		}
		sc := &Scenario{Prop: "C09", Family: "render", Seed: r.Uint64(), Groups: [][]Job{{j1}, {j2}},
			Sites: map[string]uint32{"eval.pre": 8, "eval.post": 8, "write": 8, "close": 1, "go.start": 1, "cons.tri": 1, "cons.stl": 1, "cons.3mf": 1},
			Sched: genSched(r, []string{"consumer", "evalpost"}), Env: Env{GOMAXPROCS: pick(r, []int{1, 4, 16}), CPUs: 16}, Note: "setter-history"}
		pl.scenarios = append(pl.scenarios, sc)
	}
	pl.extra = map[string]any{"signatures": len(cat), "canonical_runs": len(cat), "setter_histories": len(pairs)}
	pl.rule = "signatures (renderer x model x resolution x sink) drawn from uniform/octree marching cubes, uniform/quadtree marching squares, 2D and 3D dual contouring x 8 3D / 5 2D models x ToTriangles/ToSTL/To3MF/ToDXF/ToSVG. Each signature is rendered once canonically (fresh process, fifo, no optional yields, all CPUs); variant episodes (fresh processes) render 1..3 signatures concurrently after 0..3 preceding renders under a seeded schedule (uniform, pct, starve(one slice of the lattice | evaluations about to store | consumer | renderer | one job), burst, lifo) with evaluations parked before and after the real Evaluate, GOMAXPROCS in {1,2,4,16}, CPU affinity in {1,2,4,16} (= worker pool size), the process's time zone set so that its clock reads another calendar day, and (an eighth) a forced garbage collection every few milliseconds. A third of the variant episodes, and a fixed set of histories that render both setter-reachable states of a model one after the other, keep renderer values and the model object in an episode-wide pool, as a program that holds them in variables does. Renders with many batches are repeated with a slow consumer (the writer goroutine sleeps 3..6 ms of real time at every k-th hook arrival) and with one evaluation that takes 2.5 s / 11 s of real time. Every third entry of the shape catalogue (all in the thorough tier; every exported constructor and blend option) is also built and rendered in a canonical and in 1..3 other fresh processes under other configurations. Oracle: every job's output digest (triangle sequence bits; STL/DXF/SVG bytes; decoded 3MF) equals the canonical digest of its signature. Non-trivial = a variant episode in which the scheduler had >= 2 choices at >= 1 step; distinct = trace hash."
	pl.nontriv = func(o *runOut) (bool, string) {
		if o.res == nil || o.sc.Note == "canonical" {
			return false, ""
		}
		return o.res.ChoiceSteps > 0, o.res.TraceHash
	}
	pl.assume = []string{
		"model construction order inside a process is fixed by the episode script (the Bezier profile is built first; sdfRand is process-global)",
		"evaluations are parked at the SDF3/SDF2 interface seam; interleavings inside a single Evaluate are not explored here (C10)",
		"runtime.NumCPU() cannot exceed the host's 16 cores",
		"half of the episodes with concurrent renders run on the -race build: a race report whose access is in sdfx code is a violation (two renders sharing state), reports inside third-party libraries are counted but not judged",
	}
	pl.real = []string{"all renderers incl. the process-global worker pool and evalProcessCh", "all five sinks and their writer goroutines", "file system"}
	pl.stubs = []string{"goroutine scheduling choice (simulator)", "pass-through Evaluate wrappers that park the caller"}
	return pl
}

// c09post compares every job digest with the canonical digest of its signature.
func c09post(outs []runOut) []violation {
	canon := map[string]string{}
	canon2 := map[string]string{}
	canonSc := map[string]*Scenario{}
	for i := range outs {
		o := &outs[i]
		if o.res == nil || o.sc.Note != "canonical" {
			continue
		}
		for _, j := range o.res.Jobs {
			if j.Digest != "" {
				canon[j.Sig] = j.Digest
				canon2[j.Sig] = j.Digest2
				canonSc[j.Sig] = o.sc
			}
		}
	}
	var vs []violation
	for i := range outs {
		o := &outs[i]
		if o.res == nil || o.sc.Note == "canonical" || o.res.Verdict != "ok" {
			continue
		}
		for _, j := range o.res.Jobs {
			want, ok := canon[j.Sig]
			if !ok || j.Digest == "" {
				continue
			}
			if j.Digest != want && j.Digest2 != "" && j.Digest2 == canon2[j.Sig] {
				// the files agree except for owner handles (group 330)
				others := 0
				for _, g := range o.sc.Groups {
					for _, oj := range g {
						if oj.Sink == "dxf" {
							others++
						}
					}
				}
				vs = append(vs, violation{Prop: "C09", Class: "dxf-owner-handles",
					Msg: fmt.Sprintf("job %d (%s): the DXF file differs from the canonical execution's only in handle references (owner 330, plot style 390) of the table records that yofu/dxf shares between drawings; %d DXF drawings were alive in this process", j.ID, j.Sig, others),
					Sig: "dxf-owner-handles|" + sigKind(j.Sig),
					Sc:  o.sc, Ref: canonSc[j.Sig], RefDig: want, Trace: o.res.TraceHash})
				break
			}
			if j.Digest == want && j.DigestRet != "" && j.DigestRet != want {
				vs = append(vs, violation{Prop: "C09", Class: "incomplete-at-return",
					Msg: fmt.Sprintf("job %d (%s): when the call returned the output was %s (digest of the canonical execution %s); it reached its final state only later", j.ID, j.Sig, j.DigestRet, want),
					Sig: "incomplete-at-return|" + sigKind(j.Sig),
					Sc:  o.sc, Ref: canonSc[j.Sig], RefDig: want, Trace: o.res.TraceHash})
				break
			}
			if j.Digest != want {
				vs = append(vs, violation{Prop: "C09", Class: "nondeterministic-output",
					Msg: fmt.Sprintf("job %d (%s): output digest %s differs from the canonical execution's %s (%d items vs canonical run)", j.ID, j.Sig, j.Digest, want, j.Items),
					Sig: "nondeterministic-output|" + sigKind(j.Sig),
					Sc:  o.sc, Ref: canonSc[j.Sig], RefDig: want, Trace: o.res.TraceHash})
				break
			}
		}
	}
	return vs
}

func sigKind(sig string) string {
	// renderer/.../sink
	parts := splitSlash(sig)
	if len(parts) == 4 {
		return "kind=" + parts[0] + "|sink=" + parts[3]
	}
	return sig
}

func splitSlash(s string) []string {
	var out []string
	cur := ""
	for _, c := range s {
		if c == '/' {
			out = append(out, cur)
			cur = ""
			continue
		}
		cur += string(c)
	}
	return append(out, cur)
}
