package main

import (
	"bytes"
	"encoding/binary"
	"fmt"
	"io"
	"math"
	"os"
	"os/signal"
	"path/filepath"
	"runtime"
	"strconv"
	"strings"
	"sync"
	"sync/atomic"
	"syscall"
	"time"

	"github.com/deadsy/sdfx/render"
	"github.com/deadsy/sdfx/render/dc"
	"github.com/deadsy/sdfx/sdf"
	v2 "github.com/deadsy/sdfx/vec/v2"
	v3 "github.com/deadsy/sdfx/vec/v3"
	"verif/sim/simcore"
)

// jobRun is the live state of one job inside an episode.
type jobRun struct {
	probes      []string // noted by the job's own goroutine, merged by the scheduler when the group is done
	faultsFired []string
	job         *Job
	jid         uint32
	res         *JobResult
	state       sinkState
	model       string
	run         func() // the top-level library call
	after       func() // oracle evaluated inside the top-level goroutine right after the call returned
	end         func() // oracle evaluated once the whole group is quiescent
}

type episode struct {
	noteMu        sync.Mutex
	lateNotes     []string
	poolModels    map[string]sdf.SDF3
	poolRenderers map[string]render3er
	sc            *Scenario
	sim           *simcore.Sim
	dir           string
	res           *Result
	faults        map[string]int
	probes        map[string]int
	devnull       *os.File
}

func buildPolicy(s Sched) (simcore.Policy, error) {
	rng := simcore.NewRNG(s.Seed ^ 0x7265706c6179)
	var base simcore.Policy
	switch s.Policy {
	case "", "fifo":
		base = simcore.Fifo{}
	case "lifo":
		base = simcore.Lifo{}
	case "uniform":
		base = simcore.Uniform{R: rng}
	case "pct":
		base = simcore.NewPCT(rng, s.D, 400)
	case "burst":
		base = &simcore.Burst{R: rng}
	case "starve":
		inner := simcore.Policy(simcore.Uniform{R: rng})
		v, err := victimFunc(s.Victim)
		if err != nil {
			return nil, err
		}
		base = simcore.NewStarve(simcore.Starve{Victim: v, Inner: inner, Desc: s.Victim, Leak: s.Leak, R: simcore.NewRNG(s.Seed ^ 0x6c65616b), TrigK: s.Trig,
			Trigger: func(l simcore.Label) (uint64, bool) { return l.B, l.Site == SAuto }})
	case "explicit":
		base = &simcore.Explicit{Choices: s.Choices, Sizes: s.Sizes, Lenient: s.Lenient}
	default:
		return nil, fmt.Errorf("unknown policy %q", s.Policy)
	}
	return base, nil
}

func victimFunc(v string) (func(simcore.Label) bool, error) {
	switch {
	case v == "consumer":
		return func(l simcore.Label) bool { return isConsumerSite(l.Site) }, nil
	case v == "renderer":
		return func(l simcore.Label) bool {
			return l.Site == SProd || l.Site == SWrite || l.Site == SClose || l.Site == SSent
		}, nil
	case strings.HasPrefix(v, "producer:"):
		n, err := strconv.Atoi(v[len("producer:"):])
		if err != nil {
			return nil, err
		}
		return func(l simcore.Label) bool { return l.Site == SProd && l.A == uint64(n) }, nil
	case strings.HasPrefix(v, "eval:"):
		n, err := strconv.Atoi(v[len("eval:"):])
		if err != nil {
			return nil, err
		}
		// one eighth of the lattice points, selected by hash: "a slow batch"
		return func(l simcore.Label) bool {
			return (l.Site == SEvalPre || l.Site == SEvalPost) && int(simcore.Mix(l.A)>>61) == n&7
		}, nil
	case strings.HasPrefix(v, "job:"):
		n, err := strconv.Atoi(v[len("job:"):])
		if err != nil {
			return nil, err
		}
		return func(l simcore.Label) bool { return int(l.Job) == n }, nil
	case strings.HasPrefix(v, "caller:"):
		n, err := strconv.Atoi(v[len("caller:"):])
		if err != nil {
			return nil, err
		}
		return func(l simcore.Label) bool { return l.Site == SCaller && l.A == uint64(n) }, nil
	case strings.HasPrefix(v, "site:"):
		// "site:<m>:<v>": one m-th of the automatically inserted hook sites,
		// selected by hash: whoever arrives at one of those source locations
		// stays there while anything else can run
		var m, n uint64
		if _, err := fmt.Sscanf(v, "site:%d:%d", &m, &n); err != nil || m == 0 {
			return nil, fmt.Errorf("bad victim %q", v)
		}
		return func(l simcore.Label) bool { return l.Site == SAuto && simcore.Mix(l.A^0x5151)%m == n%m }, nil
	case v == "evalpost":
		return func(l simcore.Label) bool { return l.Site == SEvalPost }, nil
	}
	return nil, fmt.Errorf("unknown victim %q", v)
}

// hooksOff: set while the scheduler goroutine itself runs library code
// before the simulation starts (warm-up histories); hooks are no-ops then.
var hooksOff atomic.Bool

// slow consumer (Scenario.ConsStallMs)
var (
	consStall      time.Duration
	consStallEvery uint64 = 1
	consStallCount atomic.Uint64
	consStallSite  simcore.Site
)

func hookYield(site string, key uint64) {
	simcore.Bump()
	if hooksOff.Load() {
		return
	}
	s, ok := hookSites[site]
	if !ok {
		return
	}
	if consStall > 0 && isConsumerSite(s) && s != SGoStart && (consStallSite == 0 || consStallSite == s) {
		if n := consStallCount.Add(1); n%consStallEvery == 0 {
			time.Sleep(consStall)
		}
	}
	simcore.YieldCtx(s, key)
}

// runEpisode executes one scenario in this process.
func runEpisode(sc *Scenario) *Result {
	t0 := time.Now()
	res := &Result{Seed: sc.Seed, Prop: sc.Prop, Verdict: "ok", NumCPU: runtime.NumCPU(), Race: simcore.RaceEnabled}
	ep := &episode{sc: sc, res: res, faults: map[string]int{}, probes: map[string]int{}}
	defer func() {
		res.WallMs = float64(time.Since(t0).Microseconds()) / 1000
		if consStall > 0 {
			if n := int(consStallCount.Load() / consStallEvery); n > 0 {
				ep.faults["slow-consumer-stall"] += n
			}
		}
		res.Faults = ep.faults
		res.Probes = ep.probes
	}()
	fail := func(verdict, class, msg string) *Result {
		res.Verdict, res.Class, res.Msg = verdict, class, msg
		return res
	}

	if sc.Env.GOMAXPROCS > 0 {
		runtime.GOMAXPROCS(sc.Env.GOMAXPROCS)
	}
	if sc.GCStormMs > 0 {
		stop := make(chan struct{})
		go envDrainGC(time.Duration(sc.GCStormMs)*time.Millisecond, stop)
		defer close(stop)
		ep.probes["gc-storm"]++
	}
	consStall, consStallEvery = time.Duration(sc.ConsStallMs)*time.Millisecond, uint64(max(sc.ConsStallEvery, 1))
	consStallCount.Store(0)
	consStallSite = 0
	if sc.ConsStallSite != "" {
		for name, id := range siteNames {
			if id == sc.ConsStallSite {
				consStallSite = name
			}
		}
	}
	if consStall > 0 {
		ep.probes["slow-consumer-in-real-time"]++
	}
	bezierProfile() // fixed construction order: first thing in the process
	signal.Ignore(syscall.SIGXFSZ)
	root := workDir()
	if sc.Seed%5 == 0 {
		// a fifth of the episodes write to another file system than the temporary directory
		if fi, err := os.Stat("/dev/shm"); err == nil && fi.IsDir() {
			root = "/dev/shm"
			ep.probes["output-on-another-filesystem"]++
		}
	}
	dir, err := os.MkdirTemp(root, "sdfx-ep-")
	if err != nil && root != workDir() {
		dir, err = os.MkdirTemp(workDir(), "sdfx-ep-")
	}
	if err != nil {
		return fail("harness-error", "tmpdir", err.Error())
	}
	ep.dir = dir
	if os.Getenv("VERIF_KEEP") == "" {
		defer os.RemoveAll(dir)
	}

	switch sc.Family {
	case "load":
		return ep.runLoad()
	}

	policy, err := buildPolicy(sc.Sched)
	if err != nil {
		return fail("harness-error", "policy", err.Error())
	}
	stepCap := sc.StepCap
	if stepCap == 0 {
		stepCap = 400000
	}
	sim := simcore.New(policy, stepCap)
	sim.Deadline = time.Now().Add(episodeWallLimit())
	sim.StallAfter = 15 * time.Second
	sim.SleepBound = 40 * time.Second
	sim.SpinCPU = 35 * time.Second
	sim.Stats.RecordChoices = true
	for s := simcore.Site(0); s < siteCount; s++ {
		sim.SetSite(s, false, 0)
	}
	sim.SetSite(SStart, true, 1)
	for _, st := range []simcore.Site{SEvalPre, SEvalPost, SLeafPre, SLeafPost, SAuto} {
		sim.DupOK[st] = true
	}
	for name, mod := range sc.Sites {
		s, ok := siteByName[name]
		if !ok {
			return fail("harness-error", "site", "unknown site "+name)
		}
		if mod > 0 {
			sim.SetSite(s, true, mod)
		}
	}
	ep.sim = sim
	simcore.Install(sim)
	sdf.SimYield = hookYield
	render.SimYield = hookYield

	finish := func() {
		st := &sim.Stats
		res.Steps = st.Steps
		res.ChoiceSteps = st.ChoiceSteps
		res.MaxParked = st.MaxParked
		res.StallSteps = st.StallSteps
		res.MaxGor = st.MaxGoroutines
		res.Snapshots = st.Snapshots
		res.SitePark = map[string]int{}
		for s, n := range st.SitePark {
			res.SitePark[siteNames[s]] = n
		}
		res.Switches = map[string]int{}
		for k, n := range st.Switches {
			res.Switches[siteNames[simcore.Site(k>>16)]+">"+siteNames[simcore.Site(k&0xffff)]] = n
		}
		if st.DuplicateLabels > 0 {
			ep.probes["same-point-evaluated-concurrently"] += st.DuplicateLabels
		}
		res.Choices = st.ChoicesTaken
		res.Sizes = st.ParkedSizes
	}

	for gi := range sc.Groups {
		group := sc.Groups[gi]
		runs := make([]*jobRun, len(group))
		for ji := range group {
			j := &group[ji]
			res.Jobs = append(res.Jobs, JobResult{ID: j.ID})
		}
		base := len(res.Jobs) - len(group)
		for ji := range group {
			j := &group[ji]
			jr, err := ep.prepare(j, &res.Jobs[base+ji])
			if err != nil {
				finish()
				return fail("harness-error", "prepare", err.Error())
			}
			runs[ji] = jr
		}
		for _, jr := range runs {
			jr := jr
			sim.Go(SStart, jr.jid, 0, func() {
				jr.run()
				jr.res.Returned = true
				if jr.after != nil {
					jr.after()
				}
			})
		}
		v := sim.Run()
		res.Sim = v.Kind
		res.TraceHash = strconv.FormatUint(v.TraceHash, 16)
		restoreFsize()
		switch v.Kind {
		case "finished":
		case "deadlock":
			finish()
			res.Blocked = v.Blocked
			return fail("violation", "deadlock", v.Detail+": "+describeBlocked(v.Blocked))
		case "livelock":
			finish()
			res.Blocked = v.Blocked
			return fail("violation", "livelock", v.Detail+": "+describeBlocked(v.Blocked))
		default:
			finish()
			res.Blocked = v.Blocked
			return fail("harness-error", v.Kind, v.Detail)
		}
		if ps := sim.Panics(); len(ps) > 0 {
			finish()
			return fail("violation", "panic", firstLines(ps[0], 14))
		}
		for _, jr := range runs {
			for _, p := range jr.probes {
				ep.probes[p]++
			}
			for _, f := range jr.faultsFired {
				ep.faults[f]++
			}
			jr.probes, jr.faultsFired = nil, nil
		}
		ep.noteMu.Lock()
		for _, p := range ep.lateNotes {
			ep.probes[p]++
		}
		ep.lateNotes = nil
		ep.noteMu.Unlock()
		for _, jr := range runs {
			if jr.end != nil {
				jr.end()
			}
		}
		if sc.Census {
			snap, ok := sim.Quiesce()
			if !ok {
				finish()
				return fail("harness-error", "watchdog", "no quiescence for the census")
			}
			res.Census = append(res.Census, snap.N)
		}
	}
	finish()
	ep.judge()
	return res
}

func describeBlocked(bl []simcore.GoroutineInfo) string {
	var b bytes.Buffer
	for i, g := range bl {
		if i >= 6 {
			fmt.Fprintf(&b, " ... (%d goroutines)", len(bl))
			break
		}
		top := ""
		for _, f := range g.Frames {
			if strings.HasPrefix(f, "runtime.") || strings.HasPrefix(f, "sync.") {
				continue
			}
			top = f
			break
		}
		fmt.Fprintf(&b, "[%s in %s] ", g.State, top)
	}
	return b.String()
}

func firstLines(s string, n int) string {
	lines := strings.Split(s, "\n")
	if len(lines) > n {
		lines = lines[:n]
	}
	return strings.Join(lines, "\n")
}

// judge turns job checks and census into the episode verdict, per property.
func (ep *episode) judge() {
	res, sc := ep.res, ep.sc
	set := func(class, msg string) {
		if res.Verdict == "ok" {
			res.Verdict, res.Class, res.Msg = "violation", class, msg
		}
	}
	for i := range res.Jobs {
		j := &res.Jobs[i]
		if !j.Returned {
			set("no-return", fmt.Sprintf("job %d did not return", j.ID))
		}
		if sc.Prop == "C15" || sc.Prop == "C13" {
			for _, n := range j.Notices {
				res.Notices = append(res.Notices, Check{Class: n.Class, Msg: fmt.Sprintf("job %d: %s", j.ID, n.Msg)})
			}
		}
		switch sc.Prop {
		case "C11", "C13", "C15":
			if j.AtReturn != nil && !j.AtReturn.OK {
				set(j.AtReturn.Class, fmt.Sprintf("job %d at return: %s", j.ID, j.AtReturn.Msg))
			}
			if j.AtEnd != nil && !j.AtEnd.OK {
				set(j.AtEnd.Class, fmt.Sprintf("job %d at end: %s", j.ID, j.AtEnd.Msg))
			}
		case "C10":
			if j.AtEnd != nil && !j.AtEnd.OK {
				set(j.AtEnd.Class, fmt.Sprintf("job %d: %s", j.ID, j.AtEnd.Msg))
			}
		}
	}
	if sc.Prop == "C12" && sc.Census && len(res.Census) >= 3 {
		// the history repeats the same block: a bounded (lazily started) pool
		// is allowed, growth per repetition is not.
		c := res.Census
		period := censusPeriod(sc)
		if period > 0 && len(c) >= 3*period {
			last := c[len(c)-1]
			ref := c[2*period-1]
			if last > ref {
				set("goroutine-growth", fmt.Sprintf("goroutines after each render: %v (after repetition 2: %d, after the last: %d)", c, ref, last))
			}
		}
	}
}

func censusPeriod(sc *Scenario) int {
	// note carries "period=<n>"
	i := strings.Index(sc.Note, "period=")
	if i < 0 {
		return 0
	}
	n := 0
	for _, c := range sc.Note[i+7:] {
		if c < '0' || c > '9' {
			break
		}
		n = n*10 + int(c-'0')
	}
	return n
}

// ---------------------------------------------------------------------------
// disk faults

var savedFsize *syscall.Rlimit

func setFsize(n int64) error {
	var cur syscall.Rlimit
	if err := syscall.Getrlimit(syscall.RLIMIT_FSIZE, &cur); err != nil {
		return err
	}
	if savedFsize == nil {
		c := cur
		savedFsize = &c
	}
	lim := syscall.Rlimit{Cur: uint64(n), Max: cur.Max}
	return syscall.Setrlimit(syscall.RLIMIT_FSIZE, &lim)
}

func restoreFsize() {
	if savedFsize != nil {
		syscall.Setrlimit(syscall.RLIMIT_FSIZE, savedFsize)
		savedFsize = nil
	}
}

func (ep *episode) faultPath(j *Job, ext string) (string, error) {
	base := filepath.Join(ep.dir, fmt.Sprintf("job%d.%s", j.ID, ext))
	if j.Name != "" {
		name := strings.ReplaceAll(j.Name, "EXT", ext)
		switch {
		case strings.HasPrefix(name, "@dotdot/"):
			// link<id> -> real<id>/sub ; the path goes link<id>/../<name>, which the
			// kernel resolves to real<id>/<name> (not to <dir>/<name>, as lexical
			// cleaning of the path would have it)
			real := filepath.Join(ep.dir, fmt.Sprintf("real%d", j.ID), "sub")
			if err := os.MkdirAll(real, 0o755); err != nil {
				return "", err
			}
			link := filepath.Join(ep.dir, fmt.Sprintf("link%d", j.ID))
			os.Remove(link)
			if err := os.Symlink(real, link); err != nil {
				return "", err
			}
			base = link + "/../" + strings.TrimPrefix(name, "@dotdot/")
		case strings.HasPrefix(name, "@link/"):
			// the path is a symbolic link to the file (latest.stl -> part-v3.stl)
			n := strings.TrimPrefix(name, "@link/")
			real := filepath.Join(ep.dir, fmt.Sprintf("real%d-%s", j.ID, n))
			base = filepath.Join(ep.dir, fmt.Sprintf("link%d-%s", j.ID, n))
			os.Remove(base)
			if err := os.Symlink(real, base); err != nil {
				return "", err
			}
		case strings.HasPrefix(name, "="):
			// the same base name as other jobs of the episode (part.stl next to part.3mf)
			base = filepath.Join(ep.dir, strings.TrimPrefix(name, "="))
		default:
			base = filepath.Join(ep.dir, fmt.Sprintf("j%d-", j.ID)+name)
		}
	}
	switch j.Fault.Kind {
	case "", "fsize", "vanish", "emfile":
		return base, nil
	case "nodir":
		return filepath.Join(ep.dir, "missing-dir", fmt.Sprintf("job%d.%s", j.ID, ext)), nil
	case "isdir":
		if err := os.MkdirAll(base, 0o755); err != nil {
			return "", err
		}
		return base, nil
	case "devfull":
		return "/dev/full", nil
	case "symloop":
		// the path is a symbolic link to itself (or one of a pair that point at each
		// other): it cannot be created (ELOOP), and whoever follows links by hand loops
		os.Remove(base)
		if j.ID%2 == 0 {
			if err := os.Symlink(filepath.Base(base), base); err != nil {
				return "", err
			}
		} else {
			other := base + ".b"
			os.Remove(other)
			if err := os.Symlink(other, base); err != nil {
				return "", err
			}
			if err := os.Symlink(base, other); err != nil {
				return "", err
			}
		}
		return base, nil
	case "fifo":
		// the output path is a named pipe with a reader at the other end: every
		// write succeeds, nothing can be sought or truncated
		if err := syscall.Mkfifo(base, 0o644); err != nil {
			return "", err
		}
		return base, nil
	}
	return "", fmt.Errorf("unknown fault kind %q", j.Fault.Kind)
}

// withFault wraps a top-level call with the activation of its disk fault.
func (ep *episode) withFault(j *Job, jr *jobRun, path string, call func()) func() {
	return func() {
		if j.Pre > 0 && (j.Fault.Kind == "" || j.Fault.Kind == "fsize" || j.Fault.Kind == "vanish") {
			// the path already holds something else (an older, larger or smaller export)
			junk := make([]byte, j.Pre)
			r := simcore.NewRNG(uint64(j.Pre) * 2654435761)
			for i := range junk {
				junk[i] = byte(r.Uint64())
			}
			os.WriteFile(path, junk, 0o644)
			jr.probes = append(jr.probes, "output-path-already-existed")
		}
		if j.Fault.Kind == "fsize" {
			if err := setFsize(j.Fault.Budget); err != nil {
				panic("setrlimit: " + err.Error())
			}
		}
		var hogs []*os.File
		if j.Fault.Kind == "emfile" {
			// the process is out of file descriptors: open(2) fails with EMFILE
			var lim syscall.Rlimit
			syscall.Getrlimit(syscall.RLIMIT_NOFILE, &lim)
			low := lim
			low.Cur = 64
			syscall.Setrlimit(syscall.RLIMIT_NOFILE, &low)
			for {
				f, err := os.Open("/dev/null")
				if err != nil {
					break
				}
				hogs = append(hogs, f)
			}
			defer func() {
				for _, f := range hogs {
					f.Close()
				}
				syscall.Setrlimit(syscall.RLIMIT_NOFILE, &lim)
			}()
		}
		if j.Fault.Kind == "fifo" {
			rd, err1 := os.OpenFile(path, os.O_RDONLY|syscall.O_NONBLOCK, 0)
			keep, err2 := os.OpenFile(path, os.O_WRONLY|syscall.O_NONBLOCK, 0)
			if err1 != nil || err2 != nil {
				panic(fmt.Sprint("fifo: ", err1, err2))
			}
			done := make(chan int64, 1)
			var got *bytes.Buffer
			if ep.sc.Prop != "C12" {
				got = &bytes.Buffer{} // the reader keeps what it receives: the content checks run on it
			}
			go envDrain(rd, done, time.Duration(j.Fault.Budget)*time.Millisecond, got)
			defer func() {
				keep.Close()
				if got == nil {
					rd.Close()
					jr.res.FaultNote = fmt.Sprintf("%d bytes went down the pipe", <-done)
					return
				}
				// end of file arrives once the library has closed its descriptor too
				select {
				case n := <-done:
					jr.res.FaultNote = fmt.Sprintf("%d bytes went down the pipe", n)
				case <-time.After(5 * time.Second):
					rd.Close()
					jr.res.FaultNote = fmt.Sprintf("%d bytes went down the pipe; the library still holds the pipe open", <-done)
				}
				rd.Close()
				collected := path + ".collected"
				os.WriteFile(collected, got.Bytes(), 0o644)
				jr.state.path, jr.state.pipe = collected, true
			}()
		}
		call()
		if j.Fault.Kind == "fsize" {
			restoreFsize()
			if fi, err := os.Stat(path); err == nil && fi.Size() >= j.Fault.Budget {
				jr.res.FaultFired = true
				jr.res.FaultNote = fmt.Sprintf("file stopped at the %d-byte budget", j.Fault.Budget)
				jr.faultsFired = append(jr.faultsFired, "fsize")
			}
		} else if j.Fault.Kind != "" {
			jr.res.FaultFired = true
			kind := j.Fault.Kind
			if kind == "fifo" && j.Fault.Budget > 0 {
				kind = "fifo-busy-reader"
			}
			jr.faultsFired = append(jr.faultsFired, kind)
		}
		if j.StallMs > 0 {
			jr.faultsFired = append(jr.faultsFired, "slow-producer-stall")
		}
	}
}

// warmModel3 / warmModel2: the program has used the model object before the render (an
// earlier, finer render; a preview): n evaluations at distinct lattice points, by the
// calling goroutine, hooks off.
func warmModel3(s sdf.SDF3, n int) {
	hooksOff.Store(true)
	defer hooksOff.Store(false)
	bb := s.BoundingBox()
	sz := bb.Size()
	side := 1
	for side*side < n {
		side++
	}
	for i := 0; i < n; i++ {
		s.Evaluate(v3.Vec{X: bb.Min.X + sz.X*float64(i%side)/float64(side), Y: bb.Min.Y + sz.Y*float64(i/side)/float64(side), Z: bb.Min.Z + sz.Z*float64(i%5)/5})
	}
}

func warmModel2(s sdf.SDF2, n int) {
	hooksOff.Store(true)
	defer hooksOff.Store(false)
	bb := s.BoundingBox()
	sz := bb.Size()
	side := 1
	for side*side < n {
		side++
	}
	for i := 0; i < n; i++ {
		s.Evaluate(v2.Vec{X: bb.Min.X + sz.X*float64(i%side)/float64(side), Y: bb.Min.Y + sz.Y*float64(i/side)/float64(side)})
	}
}

// envDrainGC is the memory pressure of the rest of the program: it forces a garbage
// collection every d (finalizers run, sync.Pools are emptied, weak state is dropped).
// Its name starts with envDrain so that the quiescence detector leaves it alone.
func envDrainGC(d time.Duration, stop <-chan struct{}) {
	for {
		select {
		case <-stop:
			return
		case <-time.After(d):
			runtime.GC()
		}
	}
}

// envDrain is the reader at the other end of a named pipe.
// A reader that is busy for a while first stalls every write once the pipe is full.
func envDrain(rd *os.File, done chan<- int64, busy time.Duration, keep *bytes.Buffer) {
	time.Sleep(busy)
	var w io.Writer = io.Discard
	if keep != nil {
		w = keep
	}
	n, _ := io.Copy(w, rd)
	done <- n
}

// ---------------------------------------------------------------------------
// job preparation

func (ep *episode) prepare(j *Job, jres *JobResult) (*jobRun, error) {
	jr := &jobRun{job: j, jid: uint32(j.ID), res: jres}
	jres.Sig = fmt.Sprintf("%s/%s/%d/%s", j.Kind, j.Model, j.Cells, j.Sink)
	faulty := j.Fault.Kind != "" && !(j.Fault.Kind == "fifo" && ep.sc.Prop != "C12")
	switch j.Kind {
	case "script3":
		items := genTriangles(j.N, j.Coords, j.CoordSeed)
		r := &script3{jid: jr.jid, batches: splitBatches(items, j.Batches), closeAt: intSet(j.CloseAt), stall: time.Duration(j.StallMs) * time.Millisecond, reuse: j.Reuse, closeTwice: j.CloseTwice}
		if j.Fault.Kind == "vanish" {
			r.pre = func() { os.Remove(jr.state.path) }
		}
		jr.state = sinkState{sink: j.Sink, tris: items, ordered: len(j.Batches) <= 1}
		jres.Items = len(items)
		return jr, ep.bind3(jr, nil, r, faulty)
	case "script2":
		items := genLines(j.N, j.Coords, j.CoordSeed)
		r := &script2{jid: jr.jid, batches: splitBatches(items, j.Batches), closeAt: intSet(j.CloseAt), stall: time.Duration(j.StallMs) * time.Millisecond, reuse: j.Reuse, closeTwice: j.CloseTwice}
		if j.Fault.Kind == "vanish" {
			r.pre = func() { os.Remove(jr.state.path) }
		}
		jr.state = sinkState{sink: j.Sink, lines: items, ordered: len(j.Batches) <= 1, exactDXF: ep.sc.Prop == "C15"}
		jres.Items = len(items)
		return jr, ep.bind2(jr, nil, r, faulty)
	case "mcu", "mco", "dc3v2", "dc3v1":
		lw := &leafWrapper{on: j.Leaves}
		var model sdf.SDF3
		if strings.HasPrefix(j.Model, "cat") && strings.Contains(j.Model, ":") {
			m, err := catModel3(j.Model, j.Leaves)
			if err != nil {
				return nil, err
			}
			model = m
		} else if j.Share && ep.groupSize(j) == 1 && !j.Leaves {
			// the program keeps the model in a variable and changes it with the library's setters
			base, variant := splitVariant(j.Model)
			if ep.poolModels == nil {
				ep.poolModels = map[string]sdf.SDF3{}
			}
			if ep.poolModels[base] == nil {
				ep.poolModels[base] = buildModel3(base, lw)
			}
			model = ep.poolModels[base]
			applyVariant(base, variant, model)
		} else {
			model = buildModel3(j.Model, lw)
		}
		if j.Warm > 0 {
			warmModel3(model, j.Warm)
			jr.probes = append(jr.probes, "model-used-before-the-render")
		}
		var inner render3er
		rkey := fmt.Sprintf("%s/%d", j.Kind, j.Cells)
		if j.Share && ep.poolRenderers[rkey] != nil {
			inner = ep.poolRenderers[rkey]
		} else {
			switch j.Kind {
			case "mcu":
				inner = render.NewMarchingCubesUniform(j.Cells)
			case "mco":
				inner = render.NewMarchingCubesOctree(j.Cells)
			case "dc3v2":
				inner = &dcV2Adapter{r: dc.NewDualContouringDefault(j.Cells)}
			case "dc3v1":
				inner = &dcV1Adapter{r: dc.NewDualContouringV1(-1, 0, false), cells: j.Cells}
			}
			if j.Share {
				if ep.poolRenderers == nil {
					ep.poolRenderers = map[string]render3er{}
				}
				ep.poolRenderers[rkey] = inner
			}
		}
		tap := &tap3{inner: inner, jid: jr.jid}
		if j.Fault.Kind == "vanish" {
			tap.pre = func() { os.Remove(jr.state.path) }
		}
		jr.state = sinkState{sink: j.Sink, ordered: true}
		var s sdf.SDF3 = model
		if j.EvalMod > 0 || j.EvalStallMs > 0 {
			y := &ySDF3{inner: model, jid: jr.jid, setCtx: j.Leaves || ep.sim.SiteActive(SAuto)}
			if j.EvalStallMs > 0 {
				y.slow = &slowEval{at: int64(max(j.EvalStallAt, 1)), d: time.Duration(j.EvalStallMs) * time.Millisecond}
				jr.faultsFired = append(jr.faultsFired, "slow-evaluation-stall")
			}
			s = y
		}
		err := ep.bind3(jr, s, tap, faulty)
		end := jr.end
		after := jr.after
		jr.after = func() {
			jr.state.tris = tap.seen
			jr.res.Items = len(tap.seen)
			if after != nil {
				after()
			}
		}
		jr.end = func() {
			jr.state.tris = tap.seen
			if end != nil {
				end()
			}
		}
		return jr, err
	case "msu", "msq", "dc2":
		lw := &leafWrapper{on: j.Leaves}
		model := buildModel2(j.Model, lw)
		if j.Warm > 0 {
			warmModel2(model, j.Warm)
			jr.probes = append(jr.probes, "model-used-before-the-render")
		}
		var inner render2er
		switch j.Kind {
		case "msu":
			inner = render.NewMarchingSquaresUniform(j.Cells)
		case "msq":
			inner = render.NewMarchingSquaresQuadtree(j.Cells)
		case "dc2":
			inner = render.NewDualContouring2D(j.Cells)
		}
		tap := &tap2{inner: inner, jid: jr.jid}
		if j.Fault.Kind == "vanish" {
			tap.pre = func() { os.Remove(jr.state.path) }
		}
		jr.state = sinkState{sink: j.Sink, ordered: true}
		var s sdf.SDF2 = model
		if j.EvalMod > 0 || j.EvalStallMs > 0 {
			y := &ySDF2{inner: model, jid: jr.jid, setCtx: j.Leaves || ep.sim.SiteActive(SAuto)}
			if j.EvalStallMs > 0 {
				y.slow = &slowEval{at: int64(max(j.EvalStallAt, 1)), d: time.Duration(j.EvalStallMs) * time.Millisecond}
				jr.faultsFired = append(jr.faultsFired, "slow-evaluation-stall")
			}
			s = y
		}
		err := ep.bind2(jr, s, tap, faulty)
		end := jr.end
		after := jr.after
		jr.after = func() {
			jr.state.lines = tap.seen
			jr.res.Items = len(tap.seen)
			if after != nil {
				after()
			}
		}
		jr.end = func() {
			jr.state.lines = tap.seen
			if end != nil {
				end()
			}
		}
		return jr, err
	case "eval":
		return jr, ep.prepareEval(jr)
	}
	return nil, fmt.Errorf("unknown job kind %q", j.Kind)
}

func (ep *episode) bind3(jr *jobRun, s sdf.SDF3, r render.Render3, faulty bool) error {
	j := jr.job
	if s == nil {
		s = must3(sdf.Sphere3D(1)) // scripted renderers ignore the model
	}
	ext := map[string]string{"stl": "stl", "3mf": "3mf"}[j.Sink]
	var path string
	if j.Sink != "tri" {
		if ext == "" {
			return fmt.Errorf("sink %q does not take triangles", j.Sink)
		}
		p, err := ep.faultPath(j, ext)
		if err != nil {
			return err
		}
		path = p
		jr.state.path = p
	}
	check := func(dst **Check) {
		if faulty {
			return // nothing is demanded of the content after a fault
		}
		c := jr.state.check()
		*dst = &c
	}
	switch j.Sink {
	case "tri":
		jr.run = func() { jr.state.outTris = render.ToTriangles(s, r) }
	case "stl":
		jr.run = ep.withFault(j, jr, path, func() {
			if ep.sc.Prop == "C13" && j.CoordSeed%3 == 0 {
				if c := ep.loadForeignSTL(j.CoordSeed); !c.OK {
					jr.res.Notices = append(jr.res.Notices, c)
				}
			}
			render.ToSTL(s, path, r)
		})
	case "3mf":
		jr.run = ep.withFault(j, jr, path, func() { render.To3MF(s, path, r) })
	}
	jr.after = func() {
		check(&jr.res.AtReturn)
		if !faulty && ep.sc.Prop == "C09" {
			jr.res.DigestRet = jr.state.digest()
		}
		if !faulty && ep.sc.Prop == "C13" && j.Sink == "stl" {
			ep.compareBatchSTL(jr)
		}
	}
	jr.end = func() {
		check(&jr.res.AtEnd)
		if !faulty {
			jr.res.Digest = jr.state.digest()
		}
	}
	return nil
}

func (ep *episode) bind2(jr *jobRun, s sdf.SDF2, r render.Render2, faulty bool) error {
	j := jr.job
	if s == nil {
		s = must2(sdf.Circle2D(1))
	}
	ext := map[string]string{"dxf": "dxf", "svg": "svg"}[j.Sink]
	if ext == "" {
		return fmt.Errorf("sink %q does not take line segments", j.Sink)
	}
	path, err := ep.faultPath(j, ext)
	if err != nil {
		return err
	}
	jr.state.path = path
	check := func(dst **Check) {
		if faulty {
			return
		}
		c := jr.state.check()
		*dst = &c
		if dst == &jr.res.AtReturn {
			jr.res.Notices = append(jr.res.Notices, jr.state.notices...)
		}
	}
	switch j.Sink {
	case "dxf":
		jr.run = ep.withFault(j, jr, path, func() { render.ToDXF(s, path, r) })
	case "svg":
		jr.run = ep.withFault(j, jr, path, func() { render.ToSVG(s, path, r) })
	}
	jr.after = func() {
		check(&jr.res.AtReturn)
		if !faulty && ep.sc.Prop == "C09" {
			jr.res.DigestRet = jr.state.digest()
		}
		if !faulty && ep.sc.Prop == "C15" {
			ep.compareBatch2(jr)
			ep.objectAPI2(jr)
		}
	}
	jr.end = func() {
		check(&jr.res.AtEnd)
		if !faulty {
			jr.res.Digest = jr.state.digest()
			jr.res.Digest2 = jr.state.digestNoOwner()
		}
	}
	return nil
}

// loadForeignSTL: history - the process has loaded someone else's binary STL
// (arbitrary header text, non-zero attribute bytes such as colour STLs carry)
// before it writes its own. Returns a check of that load.
func (ep *episode) loadForeignSTL(seed uint64) Check {
	r := simcore.NewRNG(seed)
	n := 1 + r.Intn(40)
	tris := genTriangles(n, "wild-small", r.Uint64())
	var b bytes.Buffer
	hdr := make([]byte, 80)
	copy(hdr, "COLOR=\xff\x80\x40\xff foreign exporter "+strconv.FormatUint(r.Uint64(), 16))
	b.Write(hdr)
	binary.Write(&b, binary.LittleEndian, uint32(n))
	for _, t := range tris {
		nn := t.Normal()
		for _, v := range []float64{nn.X, nn.Y, nn.Z, t[0].X, t[0].Y, t[0].Z, t[1].X, t[1].Y, t[1].Z, t[2].X, t[2].Y, t[2].Z} {
			binary.Write(&b, binary.LittleEndian, float32(v))
		}
		binary.Write(&b, binary.LittleEndian, uint16(r.Uint64()|1)) // attribute bytes: never zero
	}
	p := filepath.Join(ep.dir, "foreign.stl")
	if err := os.WriteFile(p, b.Bytes(), 0o644); err != nil {
		return bad("harness", "write foreign stl: %v", err)
	}
	mesh, err := render.LoadSTL(p)
	if err != nil {
		return bad("stl-load", "LoadSTL of a valid binary STL with attribute bytes: %v", err)
	}
	c := compareLoaded(tris, mesh)
	ep.jobNote(seed, "foreign-stl-loaded-first")
	return c
}

// compareBatchSTL: the streaming writer produces the same bytes as the batch
// writer for the same triangles (C13), and LoadSTL returns them.
func (ep *episode) compareBatchSTL(jr *jobRun) {
	if jr.state.pipe {
		return // the output went down a pipe: there is no second file to compare with
	}
	if jr.res.AtReturn != nil && !jr.res.AtReturn.OK {
		return
	}
	p2 := jr.state.path + ".batch.stl"
	if err := render.SaveSTL(p2, jr.state.tris); err != nil {
		c := bad("stl-save", "SaveSTL: %v", err)
		jr.res.AtReturn = &c
		return
	}
	a, _ := os.ReadFile(jr.state.path)
	b, _ := os.ReadFile(p2)
	if !bytes.Equal(a, b) {
		c := bad("stl-stream-vs-batch", "streaming writer and SaveSTL differ: %d vs %d bytes, first difference at byte %d", len(a), len(b), firstDiff(a, b))
		jr.res.AtReturn = &c
		return
	}
	st2 := jr.state
	st2.path = p2
	if c := st2.check(); !c.OK {
		c.Msg = "SaveSTL: " + c.Msg
		jr.res.AtReturn = &c
		return
	}
	if c := ep.asciiRoundTrip(jr); !c.OK {
		jr.res.AtReturn = &c
		return
	}
	// a loaded mesh belongs to the caller: it is compared only after other files
	// (binary and ASCII, other content) have been loaded as well
	var held [][]*sdf.Triangle3
	for _, p := range []string{jr.state.path, p2} {
		mesh, err := render.LoadSTL(p)
		if err != nil {
			c := bad("stl-load", "LoadSTL of a file just written: %v", err)
			jr.res.AtReturn = &c
			return
		}
		held = append(held, mesh)
		ep.loadSomethingElse(jr)
	}
	for _, mesh := range held {
		if c := compareLoaded(jr.state.tris, mesh); !c.OK {
			c.Msg += " (compared after later LoadSTL calls)"
			jr.res.AtReturn = &c
			return
		}
	}
	// "a saved STL": when SaveSTL reports success the file is well-formed, whatever the
	// disk did - a full device, or a file-size limit reached in the header, at a flush
	// boundary, in the last partial buffer or one byte short of the end
	if c := ep.saveUnderFault(jr); !c.OK {
		jr.res.AtReturn = &c
		return
	}
	// the mesh is the caller's to change (scale, move, flip): the file is loaded again
	// after the first result has been edited in place, and must still give what it holds
	for _, mesh := range held {
		for _, t := range mesh {
			t[0], t[1], t[2] = t[2].MulScalar(25.4), t[1].MulScalar(-1), t[0].AddScalar(1000)
		}
	}
	for _, p := range []string{jr.state.path, p2} {
		mesh, err := render.LoadSTL(p)
		if err != nil {
			c := bad("stl-load", "second LoadSTL of the same unchanged file: %v", err)
			jr.res.AtReturn = &c
			return
		}
		if c := compareLoaded(jr.state.tris, mesh); !c.OK {
			c.Msg += " (second load of the unchanged file, after the first result was edited in place)"
			jr.res.AtReturn = &c
			return
		}
	}
}

func (ep *episode) saveUnderFault(jr *jobRun) Check {
	if ep.groupSize(jr.job) != 1 {
		return okCheck // the file-size limit is process-wide: not while another export is running
	}
	tris := jr.state.tris
	size := int64(84 + 50*len(tris))
	if err := render.SaveSTL("/dev/full", tris); err == nil && size > 0 {
		return bad("stl-save-fault", "SaveSTL to a full device (%d triangles) reported success", len(tris))
	}
	jr.faultsFired = append(jr.faultsFired, "save-devfull")
	r := simcore.NewRNG(jr.job.CoordSeed ^ 0x73617665)
	lastBuf := size / 4096 * 4096
	budgets := []int64{0, 83, 84, size - 1, size - 50, lastBuf, lastBuf + 1, 4096, int64(r.Intn(int(size) + 1))}
	for k, b := range budgets {
		if b < 0 || b >= size || (k > 3 && r.Intn(3) != 0) {
			continue
		}
		p := fmt.Sprintf("%s.fault%d.stl", jr.state.path, k)
		if err := setFsize(b); err != nil {
			return bad("harness", "setrlimit: %v", err)
		}
		err := render.SaveSTL(p, tris)
		restoreFsize()
		jr.faultsFired = append(jr.faultsFired, "save-fsize")
		if err != nil {
			continue // the failure was reported: nothing is demanded of the file
		}
		st := jr.state
		st.path = p
		if c := st.check(); !c.OK {
			c.Class = "stl-save-fault"
			c.Msg = fmt.Sprintf("SaveSTL reported success under a %d-byte file-size limit (file needs %d bytes), but: %s", b, size, c.Msg)
			return c
		}
	}
	return okCheck
}

// loadSomethingElse loads a small binary and a small ASCII STL with other
// content (what a program that imports several parts does between two uses
// of the first mesh).
func (ep *episode) loadSomethingElse(jr *jobRun) {
	other := []*sdf.Triangle3{
		{{X: -2000, Y: 1, Z: 2}, {X: 3, Y: -2000, Z: 5}, {X: 6, Y: 7, Z: -2000}},
		{{X: 9, Y: 9, Z: 9}, {X: -9, Y: 9, Z: 9}, {X: 9, Y: -9, Z: 9}},
		{{X: 0.5, Y: 0.25, Z: 0.125}, {X: 4096, Y: 0, Z: 0}, {X: 0, Y: 4096, Z: 0}},
	}
	n := len(jr.state.tris)
	for len(other) < min(n+1, 400) {
		k := float64(len(other))
		other = append(other, &sdf.Triangle3{{X: -k, Y: k, Z: 1}, {X: k, Y: -k, Z: 2}, {X: 3, Y: k, Z: -k}})
	}
	pb := jr.state.path + ".other.stl"
	if err := render.SaveSTL(pb, other); err == nil {
		render.LoadSTL(pb)
	}
	var b bytes.Buffer
	b.WriteString("solid other\n")
	for _, t := range other {
		b.WriteString(" facet normal 0 0 1\n  outer loop\n")
		for k := 0; k < 3; k++ {
			fmt.Fprintf(&b, "   vertex %g %g %g\n", t[k].X, t[k].Y, t[k].Z)
		}
		b.WriteString("  endloop\n endfacet\n")
	}
	b.WriteString("endsolid other\n")
	pa := jr.state.path + ".other.ascii.stl"
	if os.WriteFile(pa, b.Bytes(), 0o644) == nil {
		render.LoadSTL(pa)
	}
}

// asciiRoundTrip: a well-formed ASCII STL loads to the triangles it lists.
func (ep *episode) asciiRoundTrip(jr *jobRun) Check {
	p := jr.state.path + ".ascii.stl"
	// the lexical style of the file is seeded: all of these are well-formed
	r := simcore.NewRNG(jr.job.CoordSeed ^ 0xa5c11)
	sep := pick(r, []string{" ", " ", "\t", "  ", " \t "})
	indent := pick(r, []string{"", " ", "  ", "\t", "    "})
	eol := pick(r, []string{"\n", "\n", "\r\n"})
	trail := pick(r, []string{"", "", " ", "\t"})
	numStyle := r.Intn(7)
	blank := r.Intn(4) == 0
	name := pick(r, []string{"verif", "", "a b c", "solid"})
	g := func(v float64) string {
		switch numStyle {
		case 1: // exponent form, enough digits to round-trip
			return strconv.FormatFloat(v, 'e', 17, 64)
		case 2: // explicit plus sign
			t := strconv.FormatFloat(v, 'g', -1, 64)
			if v >= 0 && !math.Signbit(v) {
				t = "+" + t
			}
			return t
		case 3: // upper-case exponent
			return strings.ToUpper(strconv.FormatFloat(v, 'e', 17, 64))
		case 4: // what most exporters write: six or seven significant digits (the file then LISTS the rounded value)
			return strconv.FormatFloat(v, 'e', 6, 64)
		case 5:
			return strings.ToUpper(strconv.FormatFloat(v, 'E', 7, 32))
		case 6: // fixed notation with few decimals
			if math.Abs(v) < 1e15 {
				return strconv.FormatFloat(v, 'f', 4, 64)
			}
		}
		return strconv.FormatFloat(v, 'g', -1, 64)
	}
	var b bytes.Buffer
	line := func(depth int, fields ...string) {
		for i := 0; i < depth; i++ {
			b.WriteString(indent)
		}
		b.WriteString(strings.Join(fields, sep))
		b.WriteString(trail)
		b.WriteString(eol)
	}
	if name == "" {
		line(0, "solid")
	} else {
		line(0, "solid", name)
	}
	for _, t := range jr.state.tris {
		line(1, "facet", "normal", g(0), g(0), g(1))
		line(2, "outer", "loop")
		for k := 0; k < 3; k++ {
			line(3, "vertex", g(t[k].X), g(t[k].Y), g(t[k].Z))
		}
		line(2, "endloop")
		line(1, "endfacet")
		if blank {
			b.WriteString(eol)
		}
	}
	if name == "" {
		line(0, "endsolid")
	} else {
		line(0, "endsolid", name)
	}
	if err := os.WriteFile(p, b.Bytes(), 0o644); err != nil {
		return bad("harness", "write ascii: %v", err)
	}
	mesh, err := render.LoadSTL(p)
	if err != nil {
		return bad("stl-ascii-load", "LoadSTL of a well-formed ASCII STL with %d facets (%d bytes): %v", len(jr.state.tris), b.Len(), err)
	}
	if len(mesh) != len(jr.state.tris) {
		return bad("stl-ascii-load", "ASCII STL lists %d facets, LoadSTL returned %d", len(jr.state.tris), len(mesh))
	}
	ep.loadSomethingElse(jr)            // the mesh is compared after other files have been loaded
	listed := func(v float64) float64 { // the value the file lists: its text read by strconv, not by the library
		x, _ := strconv.ParseFloat(g(v), 64)
		return x
	}
	for i, t := range jr.state.tris {
		for k := 0; k < 3; k++ {
			lx, ly, lz := listed(t[k].X), listed(t[k].Y), listed(t[k].Z)
			if f64key(lx+0) != f64key(mesh[i][k].X+0) || f64key(ly+0) != f64key(mesh[i][k].Y+0) || f64key(lz+0) != f64key(mesh[i][k].Z+0) {
				return bad("stl-ascii-load", "ASCII facet %d vertex %d: listed (%s,%s,%s), loaded (%g,%g,%g)", i, k, g(t[k].X), g(t[k].Y), g(t[k].Z), mesh[i][k].X, mesh[i][k].Y, mesh[i][k].Z)
			}
		}
	}
	return okCheck
}

func compareLoaded(in []*sdf.Triangle3, mesh []*sdf.Triangle3) Check {
	if len(mesh) != len(in) {
		return bad("stl-load", "LoadSTL returned %d triangles, %d were saved", len(mesh), len(in))
	}
	for i, t := range in {
		for k := 0; k < 3; k++ {
			w := [3]float64{float64(float32(t[k].X)), float64(float32(t[k].Y)), float64(float32(t[k].Z))}
			g := [3]float64{mesh[i][k].X, mesh[i][k].Y, mesh[i][k].Z}
			for c := 0; c < 3; c++ {
				if f64key(w[c]+0) != f64key(g[c]+0) {
					return bad("stl-load", "LoadSTL triangle %d vertex %d component %d: got %g, saved float32 value %g", i, k, c, g[c], w[c])
				}
			}
		}
	}
	return okCheck
}

func firstDiff(a, b []byte) int {
	n := min(len(a), len(b))
	for i := 0; i < n; i++ {
		if a[i] != b[i] {
			return i
		}
	}
	return n
}

// compareBatch2: SaveDXF / SaveSVG hold the same geometry as the streaming path.
func (ep *episode) compareBatch2(jr *jobRun) {
	if jr.state.pipe {
		return // the output went down a pipe: there is no second file to compare with
	}
	if jr.res.AtReturn != nil && !jr.res.AtReturn.OK {
		return
	}
	st2 := jr.state
	st2.path = jr.state.path + ".batch." + jr.job.Sink
	var err error
	switch jr.job.Sink {
	case "dxf":
		err = render.SaveDXF(st2.path, jr.state.lines)
	case "svg":
		err = render.SaveSVG(st2.path, "fill:none;stroke:black;stroke-width:0.1", jr.state.lines)
	}
	if err != nil {
		c := bad("save", "Save%s: %v", strings.ToUpper(jr.job.Sink), err)
		jr.res.AtReturn = &c
		return
	}
	if c := st2.check(); !c.OK {
		c.Msg = "batch writer: " + c.Msg
		jr.res.AtReturn = &c
	}
	for _, n := range st2.notices {
		n.Msg = "batch writer: " + n.Msg
		jr.res.Notices = append(jr.res.Notices, n)
	}
}

// objectAPI2: the drawing objects behind SaveDXF / SaveSVG used directly, as a
// program that builds a drawing step by step does: segments added through Line
// and Lines in seeded portions, with Save calls in between, twice in a row at
// times and once more at the end. After every Save the file must hold exactly
// the segments added so far.
func (ep *episode) objectAPI2(jr *jobRun) {
	if jr.state.pipe {
		return // the output went down a pipe: there is no second file to compare with
	}
	if jr.res.AtReturn != nil && !jr.res.AtReturn.OK {
		return
	}
	lines := jr.state.lines
	r := simcore.NewRNG(jr.job.CoordSeed ^ uint64(len(lines))*0x9e3779b97f4a7c15 ^ 0x6f626a)
	st := jr.state
	st.path = jr.state.path + ".obj." + jr.job.Sink
	st.ordered = true
	var dx *render.DXF
	var sv *render.SVG
	if jr.job.Sink == "dxf" {
		dx = render.NewDXF(st.path)
	} else {
		sv = render.NewSVG(st.path, "fill:none;stroke:black;stroke-width:0.1")
	}
	saves := 0
	save := func(n int, what string) bool {
		var err error
		if dx != nil {
			err = dx.Save()
		} else {
			err = sv.Save()
		}
		saves++
		if err != nil {
			c := bad("save", "%s object: Save #%d (%s, %d segments): %v", strings.ToUpper(jr.job.Sink), saves, what, n, err)
			jr.res.AtReturn = &c
			return false
		}
		c := st
		c.lines = lines[:n]
		c.notices = nil
		if ck := c.check(); !ck.OK {
			ck.Msg = fmt.Sprintf("drawing object, Save #%d (%s, %d segments added so far): %s", saves, what, n, ck.Msg)
			jr.res.AtReturn = &ck
			return false
		}
		return true
	}
	i := 0
	for i < len(lines) {
		k := pick(r, []int{1, 1, 2, 3, 5, 37, 300, len(lines)})
		k = min(k, len(lines)-i)
		// the caller's storage is its own again once Line / Lines has returned: the
		// segments are handed over as copies that are overwritten afterwards
		if dx != nil && r.Intn(2) == 0 {
			cp := make([]*sdf.Line2, k)
			for n, l := range lines[i : i+k] {
				c := *l
				cp[n] = &c
			}
			dx.Lines(cp)
			for n := range cp {
				*cp[n] = sdf.Line2{{X: -777, Y: 777}, {X: 777, Y: -777}}
				cp[n] = nil
			}
		} else {
			var scratch sdf.Line2
			for _, l := range lines[i : i+k] {
				if dx != nil {
					scratch = *l
					dx.Line(&scratch)
					scratch = sdf.Line2{{X: -777, Y: 777}, {X: 777, Y: -777}}
				} else {
					sv.Line(l[0], l[1])
				}
			}
		}
		i += k
		// point markers in between (a separate layer; an empty set too)
		if dx != nil && r.Intn(5) == 0 {
			var ps v2.VecSet
			for n := r.Intn(3); n > 0; n-- {
				ps = append(ps, v2.Vec{X: float64(r.Intn(100)), Y: float64(r.Intn(100))})
			}
			dx.Points(ps, 0.5)
			st.circles += len(ps)
			ep.jobNote(0, "drawing-object-points-between-lines")
		}
		if i < len(lines) && saves < 3 && r.Intn(4) == 0 {
			if !save(i, "more segments follow") {
				return
			}
			if r.Intn(2) == 0 && !save(i, "again, nothing added") {
				return
			}
		}
	}
	if !save(i, "final") {
		return
	}
	if r.Intn(2) == 0 {
		save(i, "final, again")
	}
	ep.jobNote(0, "drawing-object-api")
	if saves > 2 {
		ep.jobNote(0, "drawing-object-saved-more-than-twice")
	}
}

// ---------------------------------------------------------------------------
// adapters for the channel-based 3D dual contouring renderers

type dcV2Adapter struct{ r *dc.DualContouringV2 }

func (a *dcV2Adapter) Info(s sdf.SDF3) string { return a.r.Info(s) }
func (a *dcV2Adapter) Render(s sdf.SDF3, out sdf.Triangle3Writer) {
	ch := make(chan []*sdf.Triangle3, 1<<16)
	a.r.Render(s, ch)
	close(ch)
	for b := range ch {
		out.Write(b)
	}
	out.Close()
}

type dcV1Adapter struct {
	r     *dc.DualContouringV1
	cells int
}

func (a *dcV1Adapter) Info(s sdf.SDF3) string { return a.r.Info(s, a.cells) }
func (a *dcV1Adapter) Render(s sdf.SDF3, out sdf.Triangle3Writer) {
	ch := make(chan *sdf.Triangle3, 1<<20)
	a.r.Render(s, a.cells, ch)
	close(ch)
	for t := range ch {
		out.Write([]*sdf.Triangle3{t})
	}
	out.Close()
}

func (ep *episode) groupSize(j *Job) int {
	for _, g := range ep.sc.Groups {
		for i := range g {
			if g[i].ID == j.ID {
				return len(g)
			}
		}
	}
	return 1
}

// jobNote records a probe from a job goroutine (merged by the scheduler later).
func (ep *episode) jobNote(_ uint64, name string) {
	ep.noteMu.Lock()
	ep.lateNotes = append(ep.lateNotes, name)
	ep.noteMu.Unlock()
}

func intSet(xs []int) map[int]bool {
	m := map[int]bool{}
	for _, x := range xs {
		m[x] = true
	}
	return m
}

func workDir() string {
	if d := os.Getenv("VERIF_WORK"); d != "" {
		return d
	}
	return os.TempDir()
}

func episodeWallLimit() time.Duration {
	if s := os.Getenv("VERIF_EPISODE_WALL"); s != "" {
		if d, err := time.ParseDuration(s); err == nil {
			return d
		}
	}
	// (generous on purpose: on a loaded machine an episode of 30 s can take several
	// times as long, and a watchdog kill turns a clean run into exit 2)
	return 240 * time.Second
}
