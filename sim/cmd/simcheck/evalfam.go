package main

// C10: concurrent Evaluate on every shape of the catalogue.

import (
	"fmt"
	"math"
	"strings"
	"sync"

	"github.com/deadsy/sdfx/sdf"
	v2 "github.com/deadsy/sdfx/vec/v2"
	v3 "github.com/deadsy/sdfx/vec/v3"
	"verif/sim/simcore"
)

func sameBits(a, b float64) bool {
	if math.IsNaN(a) && math.IsNaN(b) {
		return true
	}
	return math.Float64bits(a+0) == math.Float64bits(b+0)
}

// prepareEval: 2..4 simulated caller goroutines evaluate one shared shape
// over overlapping point lists; the reference is a second, freshly built
// instance evaluated sequentially afterwards.
func (ep *episode) prepareEval(jr *jobRun) error {
	j := jr.job
	i, ok := catalogueIndex[j.Model]
	if !ok {
		return fmt.Errorf("no catalogue entry %q", j.Model)
	}
	entry := &catalogue[i]
	s2, s3, err := buildEntry(j.Model, &leafWrapper{on: j.Leaves})
	if err != nil {
		return err
	}
	r2, r3 := s2, s3
	if !entry.Shared {
		r2, r3, err = buildEntry(j.Model, &leafWrapper{})
		if err != nil {
			return err
		}
	}
	callers := max(j.Callers, 2)
	npts := max(j.Points, 2)
	r := simcore.NewRNG(j.CoordSeed)
	poolN := max(2, npts*2/3)
	if j.Fresh {
		poolN = callers * npts
	}
	var pool2 []v2.Vec
	var pool3 []v3.Vec
	if s2 != nil {
		pool2 = samplePoints2(s2.BoundingBox(), r, poolN)
	} else {
		pool3 = samplePoints3(s3.BoundingBox(), r, poolN)
	}
	// long query history first: j.Warm sequential evaluations at distinct
	// lattice points (by the scheduler goroutine, never parked). Half of the
	// pool then revisits early warm-up points, half is new.
	if j.Warm > 0 {
		hooksOff.Store(true)
		defer hooksOff.Store(false)
		side := 1
		for side*side < j.Warm {
			side++
		}
		if s2 != nil {
			bb := s2.BoundingBox()
			sz := bb.Size()
			for i := 0; i < j.Warm; i++ {
				p := v2.Vec{X: bb.Min.X + sz.X*float64(i%side)/float64(side), Y: bb.Min.Y + sz.Y*float64(i/side)/float64(side)}
				s2.Evaluate(p)
				if i < poolN/2 && !j.Fresh {
					pool2[i] = p
				}
			}
		} else {
			bb := s3.BoundingBox()
			sz := bb.Size()
			for i := 0; i < j.Warm; i++ {
				p := v3.Vec{X: bb.Min.X + sz.X*float64(i%side)/float64(side), Y: bb.Min.Y + sz.Y*float64(i/side)/float64(side), Z: bb.Min.Z + sz.Z*float64(i%7)/7}
				s3.Evaluate(p)
				if i < poolN/2 && !j.Fresh {
					pool3[i] = p
				}
			}
		}
	}
	seq := make([][]int, callers)
	results := make([][]float64, callers)
	for c := range seq {
		seq[c] = make([]int, npts)
		results[c] = make([]float64, npts)
		for k := range seq[c] {
			seq[c][k] = r.Intn(poolN)
			if j.Fresh && r.Intn(4) != 0 {
				seq[c][k] = c*npts + k
			}
		}
	}
	jr.res.Sig = "eval/" + j.Model
	jr.res.Items = callers * npts
	jr.run = func() {
		var wg sync.WaitGroup
		for c := 0; c < callers; c++ {
			wg.Add(1)
			go func(c int) {
				defer wg.Done()
				simcore.SetCtx(simcore.Ctx{Job: jr.jid, Sub: uint64(c) + 1})
				for k, pi := range seq[c] {
					simcore.Yield(simcore.Label{Site: SCaller, Job: jr.jid, A: uint64(c), B: uint64(k)})
					if s2 != nil {
						results[c][k] = s2.Evaluate(pool2[pi])
					} else {
						results[c][k] = s3.Evaluate(pool3[pi])
					}
				}
			}(c)
		}
		wg.Wait()
	}
	jr.end = func() {
		c := okCheck
	outer:
		for ci := range seq {
			for k, pi := range seq[ci] {
				var want float64
				if r2 != nil {
					want = r2.Evaluate(pool2[pi])
				} else {
					want = r3.Evaluate(pool3[pi])
				}
				if !sameBits(want, results[ci][k]) {
					c = bad("values-differ", "%s: caller %d call %d returned %v under concurrent evaluation, sequential evaluation gives %v", j.Model, ci, k, results[ci][k], want)
					break outer
				}
			}
		}
		jr.res.AtEnd = &c
	}
	return nil
}

// catModel3 resolves "cat:<entry>" / "catref:<entry>" models for render jobs
// (2D entries are extruded).
func catModel3(name string, leaves bool) (sdf.SDF3, error) {
	ref := strings.HasPrefix(name, "catref:")
	entry := strings.TrimPrefix(strings.TrimPrefix(name, "catref:"), "cat:")
	lw := &leafWrapper{on: leaves && !ref}
	s2, s3, err := buildEntry(entry, lw)
	if err != nil {
		return nil, err
	}
	if s3 != nil {
		return s3, nil
	}
	h := s2.BoundingBox().Size().MaxComponent() / 3
	if !(h > 0) {
		h = 1
	}
	return sdf.Extrude3D(s2, h), nil
}

func planC10(tier string, root *simcore.RNG) *plan {
	pl := &plan{prop: "C10", level: "exploration", batch: 1}
	pl.post = c10post
	if tier == "replay" {
		return pl
	}
	names := catalogueNames()
	perEntry, renderEvery := 1, 4
	if tier == "thorough" {
		perEntry, renderEvery = 40, 1
	}
	rot := root.Intn(renderEvery)
	for ni, name := range names {
		e := &catalogue[catalogueIndex[name]]
		for k := 0; k < perEntry; k++ {
			r := root.Fork()
			pts := 5 + r.Intn(8)
			if e.Heavy {
				pts = 3
			}
			j := Job{ID: 1, Kind: "eval", Model: name, Callers: 2 + r.Intn(3), Points: pts, CoordSeed: r.Uint64(), Leaves: r.Intn(4) != 0}
			var victims []string
			for c := 0; c < j.Callers; c++ {
				victims = append(victims, fmt.Sprintf("caller:%d", c))
			}
			sc := &Scenario{Prop: "C10", Family: "eval", Seed: r.Uint64(), Groups: [][]Job{{j}},
				Sites: map[string]uint32{"caller": 1, "leaf.pre": 1, "leaf.post": 1, "auto": uint32(r.Intn(2))}, Sched: genSched(r, victims),
				Env: Env{GOMAXPROCS: pick(r, []int{1, 4, 16}), CPUs: 16, Race: true}}
			pl.scenarios = append(pl.scenarios, sc)
		}
		// many points per caller: small direct-mapped tables and hashed caches only
		// collide when enough distinct points are in play
		{
			nm := 1
			if tier == "thorough" {
				nm = 8
			}
			for k := 0; k < nm && !e.Heavy; k++ {
				r := root.Fork()
				j := Job{ID: 1, Kind: "eval", Model: name, Callers: 3 + r.Intn(2), Points: 128 + r.Intn(64), CoordSeed: r.Uint64(), Leaves: r.Intn(3) == 0}
				sc := &Scenario{Prop: "C10", Family: "eval", Seed: r.Uint64(), Groups: [][]Job{{j}},
					Sites: map[string]uint32{"caller": 1, "leaf.pre": 2, "leaf.post": 2, "auto": 1}, Sched: genSched(r, []string{"caller:0", "caller:1"}),
					Env: Env{GOMAXPROCS: pick(r, []int{1, 4, 16}), CPUs: 16, Race: true}, Note: "many-points"}
				if sc.Sched.Policy == "fifo" || sc.Sched.Policy == "lifo" {
					sc.Sched.Policy = "uniform"
					if r.Intn(2) == 0 {
						m := 3 + r.Intn(6)
						sc.Sched.Policy, sc.Sched.Victim = "starve", fmt.Sprintf("site:%d:%d", m, r.Intn(m))
					}
				}
				pl.scenarios = append(pl.scenarios, sc)
			}
		}
		// stateful wrappers: a long sequential query history before the concurrent phase
		stateful := false
		for _, c := range e.Ctors {
			if c == "sdf.Cache2D" || c == "sdf.NewVoxelSDF3" {
				stateful = true
			}
		}
		if stateful || (tier == "thorough" && ni%5 == rot%5) {
			nw := 1
			if tier == "thorough" {
				nw = 3
			}
			for k := 0; k < nw; k++ {
				r := root.Fork()
				warm := pick(r, []int{300000, 600000, 70000})
				if !stateful {
					warm = 20000
				}
				if e.Heavy {
					warm = 2000
				}
				j := Job{ID: 1, Kind: "eval", Model: name, Callers: 2 + r.Intn(2), Points: 8 + r.Intn(6), CoordSeed: r.Uint64(), Warm: warm}
				sc := &Scenario{Prop: "C10", Family: "eval", Seed: r.Uint64(), Groups: [][]Job{{j}},
					Sites: map[string]uint32{"caller": 1}, Sched: genSched(r, nil),
					Env: Env{GOMAXPROCS: pick(r, []int{1, 4, 16}), CPUs: 16, Race: true}, Note: "long-history"}
				pl.scenarios = append(pl.scenarios, sc)
			}
			// trigger sweep: one caller is held back and let through exactly when another
			// caller is parked at the k-th distinct instrumented code location of the library
			if stateful {
				kmax := 10
				reps := 1
				if tier == "thorough" {
					kmax, reps = 14, 4
				}
				for k := 1; k <= kmax; k++ {
					for rep := 0; rep < reps; rep++ {
						r := root.Fork()
						j := Job{ID: 1, Kind: "eval", Model: name, Callers: 3 + r.Intn(2), Points: 10 + r.Intn(10), CoordSeed: r.Uint64()}
						sc := &Scenario{Prop: "C10", Family: "eval", Seed: r.Uint64(), Groups: [][]Job{{j}},
							Sites: map[string]uint32{"caller": 1, "auto": 1}, Sched: Sched{Policy: "starve", Victim: fmt.Sprintf("caller:%d", r.Intn(2)), Trig: k, Seed: r.Uint64()},
							Env: Env{GOMAXPROCS: pick(r, []int{1, 4, 16}), CPUs: 16, Race: r.Intn(2) == 0}, Note: "trigger-sweep"}
						pl.scenarios = append(pl.scenarios, sc)
					}
				}
			}
			// a history that stops just short of a power of two, so that a size or
			// read-count threshold is crossed by the concurrent callers, not before
			if stateful {
				// mutable state behind Evaluate (the 2D cache) gets several repetitions per
				// threshold, tables that are read-only after construction one
				mutable := false
				for _, c := range e.Ctors {
					mutable = mutable || c == "sdf.Cache2D"
				}
				reps := 1
				if mutable {
					reps = 6
				}
				base := []int{1 << 8, 1000, 1 << 10, 1 << 12, 10000, 1 << 14, 1 << 16, 100000, 1 << 18}
				if tier == "thorough" {
					reps *= 6
					base = append(base, 1<<9, 1<<11, 1<<13, 1<<15, 1<<17, 1<<19, 1<<20, 1000000)
				}
				var ks []int
				for rep := 0; rep < reps; rep++ {
					ks = append(ks, base...)
				}
				for _, k := range ks {
					r := root.Fork()
					j := Job{ID: 1, Kind: "eval", Model: name, Callers: 4 + r.Intn(5), Points: 24 + r.Intn(16), CoordSeed: r.Uint64(), Warm: k - 8 - r.Intn(24), Fresh: r.Intn(8) != 0}
					sc := &Scenario{Prop: "C10", Family: "eval", Seed: r.Uint64(), Groups: [][]Job{{j}},
						Sites: map[string]uint32{"caller": 1, "auto": 1}, Sched: Sched{Policy: pick(r, []string{"uniform", "uniform", "uniform", "uniform", "uniform", "pct", "burst"}), Seed: r.Uint64(), D: 2},
						Env: Env{GOMAXPROCS: pick(r, []int{1, 4, 16}), CPUs: 16, Race: r.Intn(2) == 0}, Note: "threshold-history"}
					if r.Intn(4) == 0 {
						m := 3 + r.Intn(6)
						sc.Sched.Policy, sc.Sched.Victim = "starve", fmt.Sprintf("site:%d:%d", m, r.Intn(m))
					}
					if r.Intn(3) == 0 {
						sc.GCStormMs = 2 + r.Intn(6)
					}
					pl.scenarios = append(pl.scenarios, sc)
				}
			}
		}
		// any shape may keep state nobody advertised (a memo, a pool, a table that is
		// trimmed): every light-weight entry gets one history that
		// crosses 2^18 evaluations while the callers run, under memory pressure (a forced
		// garbage collection every few milliseconds: finalizers run, pools are emptied)
		if !stateful && !e.Heavy {
			ths := []int{1 << 18}
			if tier == "thorough" {
				ths = []int{1 << 16, 1 << 18, 1 << 20}
			}
			for _, th := range ths {
				r := root.Fork()
				j := Job{ID: 1, Kind: "eval", Model: name, Callers: 3 + r.Intn(3), Points: 24 + r.Intn(16), CoordSeed: r.Uint64(), Warm: th - 8 - r.Intn(24), Fresh: true}
				sc := &Scenario{Prop: "C10", Family: "eval", Seed: r.Uint64(), Groups: [][]Job{{j}},
					Sites: map[string]uint32{"caller": 1, "auto": 1}, Sched: Sched{Policy: "uniform", Seed: r.Uint64()},
					Env: Env{GOMAXPROCS: pick(r, []int{2, 4, 16}), CPUs: 16, Race: r.Intn(2) == 0}, Note: "threshold-history", GCStormMs: 2 + r.Intn(4)}
				pl.scenarios = append(pl.scenarios, sc)
			}
		}
		if ni%renderEvery == rot && !e.Heavy {
			reps := 1
			if tier == "thorough" {
				reps = 6
			}
			for k := 0; k < reps; k++ {
				r := root.Fork()
				cells := 10 + r.Intn(3)
				mod := pick(r, []uint32{2, 4, 8})
				a := Job{ID: 1, Kind: "mcu", Sink: "tri", Model: "cat:" + name, Cells: cells, EvalMod: mod, Leaves: r.Intn(2) == 0}
				b := Job{ID: 2, Kind: "mcu", Sink: "tri", Model: "catref:" + name, Cells: cells, EvalMod: mod}
				sc := &Scenario{Prop: "C10", Family: "render-pair", Seed: r.Uint64(), Groups: [][]Job{{a}, {b}},
					Sites: map[string]uint32{"eval.pre": mod, "eval.post": mod, "leaf.pre": 8, "leaf.post": 8, "close": 1, "write": 16, "mc.sent": 1, "cons.tri": 1, "worker.start": 1, "go.start": 1, "auto": pick(r, []uint32{0, 4, 8})},
					Sched: genSched(r, []string{"evalpost", fmt.Sprintf("eval:%d", r.Intn(8)), "consumer"}),
					Env:   Env{GOMAXPROCS: pick(r, []int{1, 4, 16}), CPUs: pick(r, []int{4, 16, 16}), Race: true}}
				pl.scenarios = append(pl.scenarios, sc)
			}
		}
	}
	total, missing := auditConstructors()
	pl.extra = map[string]any{"catalogue_entries": len(names), "exported_constructors_in_sdf_and_obj": total, "constructors_not_in_catalogue": missing}
	pl.rule = "for every entry of the shape catalogue (every exported sdf/obj constructor returning SDF2/SDF3, incl. Cache2D, NewVoxelSDF3, Mesh2D/3D, Text2D, ImportTriMesh/ImportSTL, rotate/array wrappers, screws, all obj parts): (a) 2..4 simulated caller goroutines evaluate the shared shape over overlapping seeded point lists (repeats included), parked before every call and, for harness-built composites, at yielding wrappers on the leaves, i.e. inside the combinator's or cache's Evaluate; (b) for a rotating quarter of the entries (all in the thorough tier) the shape is rendered with NewMarchingCubesUniform under a seeded schedule and a freshly built reference instance is rendered afterwards; (c) many-points episodes (128..191 points per caller, automatic hooks at every synchronisation operation inside the library); (d) for wrappers with state (Cache2D, voxel tables) long sequential query histories (up to 600000 evaluations) before the callers start, and threshold histories that stop 8..31 evaluations short of a round number (2^8..2^18, 10^3..10^5; thorough to 2^20, 10^6) so that a size or read-count threshold is crossed by the concurrent callers, whose points are mostly new, under uniform/pct/burst/site-stall schedules; every light-weight entry gets one history crossing 2^18 evaluations under a forced garbage collection every few milliseconds. Built with -race; parking is invisible to the race detector (RaceDisable window), so program races are reported although the simulator runs the goroutines one at a time. Oracle: values bit-identical to sequential evaluation of a fresh instance / identical triangle sequence; no race report with an sdfx frame; no panic or runtime fault. Non-trivial = the scheduler had >= 2 choices at >= 1 step; distinct = trace hash."
	pl.assume = []string{
		"interleavings inside un-wrappable leaves (obj parts, primitives) are not explored at sub-call granularity; there the verdict rests on the happens-before race detector, whose shadow memory keeps only the last few accesses per word (misses possible, false reports not)",
		"a race report counts only if at least one frame is in github.com/deadsy/sdfx; a report entirely inside the harness exits 2",
	}
	pl.real = []string{"every shape's Evaluate", "NewMarchingCubesUniform incl. the worker pool", "Go race detector (ThreadSanitizer)"}
	pl.stubs = []string{"caller goroutines (harness)", "goroutine scheduling choice (simulator)", "yielding pass-through wrappers on leaves"}
	return pl
}

// c10post: in render-pair episodes the concurrent render and the reference
// render must produce the same triangles.
func c10post(outs []runOut) []violation {
	var vs []violation
	for i := range outs {
		o := &outs[i]
		if o.res == nil || o.sc.Family != "render-pair" || o.res.Verdict != "ok" || len(o.res.Jobs) < 2 {
			continue
		}
		a, b := o.res.Jobs[0], o.res.Jobs[1]
		if a.Digest != b.Digest {
			vs = append(vs, violation{Prop: "C10", Class: "values-differ",
				Msg: fmt.Sprintf("%s: rendering the shape under a seeded schedule gave %d triangles (digest %s), the reference instance rendered afterwards gave %d (digest %s)", a.Sig, a.Items, a.Digest, b.Items, b.Digest),
				Sig: "values-differ|render|" + a.Sig, Sc: o.sc, Trace: o.res.TraceHash})
		}
	}
	return vs
}
