package main

import (
	"encoding/json"
	"fmt"
	"os"
	"path/filepath"
	"runtime"
	"sort"
	"strconv"
	"strings"
	"time"

	"verif/sim/simcore"
)

// violation is one property violation found by a run.
type violation struct {
	Prop   string
	Class  string
	Msg    string
	Sig    string
	Sc     *Scenario
	Ref    *Scenario // C09: the canonical execution it differs from
	RefDig string
	Trace  string
	Race   string
}

// plan is what a property check runs.
type plan struct {
	prop      string
	level     string
	rule      string
	scenarios []*Scenario
	batch     int
	exhaust   bool
	assume    []string
	real      []string // components that ran real code
	stubs     []string // components that ran a stub
	post      func(outs []runOut) []violation
	nontriv   func(o *runOut) (bool, string)  // non-trivial? and distinctness key
	cases     func(o *runOut) (int, []string) // episodes that hold many cases: (cases run, keys of the non-trivial ones)
	extra     map[string]any
}

func verifRoot() string {
	if d := os.Getenv("VERIF_ROOT"); d != "" {
		return d
	}
	return "/verif"
}

// outRoot is where evidence and replay files go (VERIF_OUT overrides it so
// that runs against scratch copies do not overwrite the real evidence).
func outRoot() string {
	if d := os.Getenv("VERIF_OUT"); d != "" {
		return d
	}
	return verifRoot()
}

func envSeed() uint64 {
	if s := os.Getenv("VERIF_SEED"); s != "" {
		if v, err := strconv.ParseUint(s, 10, 64); err == nil {
			return v
		}
		if v, err := strconv.ParseInt(s, 10, 64); err == nil {
			return uint64(v)
		}
	}
	return 20261004
}

func budget(tier string) time.Duration {
	if s := os.Getenv("VERIF_BUDGET"); s != "" {
		if d, err := time.ParseDuration(s); err == nil {
			return d
		}
	}
	if tier == "thorough" {
		return 30 * time.Minute
	}
	return 100 * time.Second
}

// sigOf builds the signature of a failing episode: class + the failing job's
// entry point + fault kind + (for deadlocks) where the goroutines are stuck.
func sigOf(o *runOut, class string) string {
	parts := []string{class}
	if class == "goroutine-growth" {
		return class
	}
	var fj *Job
	if o.res != nil {
		for i := range o.res.Jobs {
			jr := &o.res.Jobs[i]
			failed := !jr.Returned || (jr.AtReturn != nil && !jr.AtReturn.OK) || (jr.AtEnd != nil && !jr.AtEnd.OK)
			if failed {
				fj = findJob(o.sc, jr.ID)
				break
			}
		}
	}
	if fj == nil {
		for gi := range o.sc.Groups {
			if len(o.sc.Groups[gi]) > 0 {
				fj = &o.sc.Groups[gi][len(o.sc.Groups[gi])-1]
			}
		}
	}
	if fj != nil {
		parts = append(parts, "kind="+fj.Kind, "sink="+fj.Sink, "fault="+fj.Fault.Kind)
		if fj.Kind == "eval" || fj.Kind == "load" || strings.HasPrefix(fj.Model, "cat") {
			parts = append(parts, "model="+fj.Model)
		}
	}
	if o.res != nil && (class == "deadlock" || class == "livelock") {
		var fr []string
		for _, g := range o.res.Blocked {
			for _, f := range g.Frames {
				if strings.Contains(f, "github.com/deadsy/sdfx/") {
					fr = append(fr, g.State+"@"+strings.TrimPrefix(f, "github.com/deadsy/sdfx/"))
					break
				}
			}
		}
		sort.Strings(fr)
		fr = uniqStrings(fr)
		parts = append(parts, "stuck="+strings.Join(fr, ","))
	}
	return strings.Join(parts, "|")
}

func uniqStrings(in []string) []string {
	var out []string
	for i, s := range in {
		if i == 0 || s != in[i-1] {
			out = append(out, s)
		}
	}
	return out
}

func findJob(sc *Scenario, id int) *Job {
	for gi := range sc.Groups {
		for ji := range sc.Groups[gi] {
			if sc.Groups[gi][ji].ID == id {
				return &sc.Groups[gi][ji]
			}
		}
	}
	return nil
}

// episodeViolations turns one child result into violations (or a harness error).
func episodeViolations(prop string, o *runOut) (vs []violation, harnessErr string) {
	if o.timeout {
		return nil, "watchdog: episode exceeded its wall-clock limit: " + scenarioBrief(o.sc)
	}
	if o.crashed {
		class, msg, inSdfx := crashInfo(o.stderr)
		if class == "crash" || !inSdfx {
			return nil, "child crashed outside sdfx code: " + msg
		}
		return []violation{{Prop: prop, Class: class, Msg: msg, Sig: sigOf(o, class) + "|" + crashSite(msg), Sc: o.sc}}, ""
	}
	r := o.res
	switch r.Verdict {
	case "harness-error":
		return nil, fmt.Sprintf("episode seed %d: %s: %s", r.Seed, r.Class, r.Msg)
	case "violation":
		vs = append(vs, violation{Prop: prop, Class: r.Class, Msg: r.Msg, Sig: sigOf(o, r.Class), Sc: o.sc, Trace: r.TraceHash})
	}
	seenN := map[string]bool{}
	for _, n := range r.Notices {
		if seenN[n.Class] {
			continue
		}
		seenN[n.Class] = true
		vs = append(vs, violation{Prop: prop, Class: n.Class, Msg: n.Msg, Sig: sigOf(o, n.Class), Sc: o.sc, Trace: r.TraceHash})
	}
	for i := range o.races {
		rr := &o.races[i]
		if rr.Harness {
			return nil, "race report entirely inside the harness:\n" + firstLines(rr.Text, 30)
		}
		if rr.ThirdParty {
			continue // counted in the evidence, not a verdict about sdfx
		}
		vs = append(vs, violation{Prop: prop, Class: "data-race", Msg: "race detector: " + rr.Summary + "\n" + firstLines(rr.Text, 40), Sig: "data-race|" + rr.Summary, Sc: o.sc, Race: rr.Summary, Trace: r.TraceHash})
	}
	return vs, ""
}

func crashSite(msg string) string {
	for _, ln := range strings.Split(msg, "\n") {
		t := strings.TrimSpace(ln)
		if strings.HasPrefix(t, "github.com/deadsy/sdfx/") {
			if i := strings.LastIndex(t, "("); i > 0 {
				t = t[:i]
			}
			return "at=" + strings.TrimPrefix(t, "github.com/deadsy/sdfx/")
		}
	}
	return ""
}

func scenarioBrief(sc *Scenario) string {
	b, _ := json.Marshal(sc)
	if len(b) > 600 {
		return string(b[:600]) + "..."
	}
	return string(b)
}

// ---------------------------------------------------------------------------
// known findings

type finding struct {
	Property string   `json:"property"`
	Status   string   `json:"status"` // known | fixed
	Commit   string   `json:"commit,omitempty"`
	What     string   `json:"what"`
	Match    []string `json:"match"` // all substrings must occur in "<sig> <msg>"
}

type findingsFile struct {
	Findings []finding `json:"findings"`
}

func loadFindings() findingsFile {
	var f findingsFile
	b, err := os.ReadFile(filepath.Join(verifRoot(), "known_findings.json"))
	if err == nil {
		json.Unmarshal(b, &f)
	}
	return f
}

func (f *findingsFile) match(v *violation) *finding {
	hay := v.Sig + " " + v.Msg
	for i := range f.Findings {
		k := &f.Findings[i]
		if k.Status != "known" || k.Property != v.Prop || len(k.Match) == 0 {
			continue
		}
		all := true
		for _, m := range k.Match {
			if !strings.Contains(hay, m) {
				all = false
				break
			}
		}
		if all {
			return k
		}
	}
	return nil
}

// ---------------------------------------------------------------------------
// replay files

type replayFile struct {
	Property    string    `json:"property"`
	Class       string    `json:"class"`
	Message     string    `json:"message"`
	Signature   string    `json:"signature"`
	Scenario    *Scenario `json:"scenario"`
	Reference   *Scenario `json:"reference,omitempty"` // C09: the execution it must agree with
	ExpectTrace string    `json:"expect_trace_hash,omitempty"`
	Minimised   bool      `json:"minimised"`
	MinimiseLog []string  `json:"minimise_log,omitempty"`
	GoVersion   string    `json:"go_version"`
	Original    *Scenario `json:"original_scenario,omitempty"`
	VerifSeed   uint64    `json:"verif_seed"`
}

func writeReplay(v *violation, orig *Scenario, minimised bool, log []string, seed uint64, n int) string {
	dir := filepath.Join(outRoot(), "replays")
	os.MkdirAll(dir, 0o755)
	path := filepath.Join(dir, fmt.Sprintf("%s-%d-%d.json", v.Prop, seed, n))
	rf := replayFile{Property: v.Prop, Class: v.Class, Message: v.Msg, Signature: v.Sig, Scenario: v.Sc, Reference: v.Ref,
		ExpectTrace: v.Trace, Minimised: minimised, MinimiseLog: log, GoVersion: runtime.Version(), VerifSeed: seed}
	if minimised {
		rf.Original = orig
	}
	b, _ := json.MarshalIndent(&rf, "", " ")
	os.WriteFile(path, b, 0o644)
	return path
}

// ---------------------------------------------------------------------------
// evidence

type evidence struct {
	PropertyID  string         `json:"property_id"`
	Tier        string         `json:"tier"`
	Seed        uint64         `json:"seed"`
	Level       string         `json:"level"`
	Coverage    map[string]any `json:"coverage"`
	Assumptions []string       `json:"assumptions"`
	WallS       float64        `json:"wall_s"`
	Violations  int            `json:"violations"`
}

func writeEvidence(ev *evidence) error {
	dir := filepath.Join(outRoot(), "evidence")
	os.MkdirAll(dir, 0o755)
	b, err := json.MarshalIndent(ev, "", " ")
	if err != nil {
		return err
	}
	return os.WriteFile(filepath.Join(dir, ev.PropertyID+".json"), b, 0o644)
}

// ---------------------------------------------------------------------------
// the run command

func cmdRun(args []string) int {
	if len(args) < 2 {
		fmt.Fprintln(os.Stderr, "usage: simcheck run <ID> <quick|thorough>")
		return 2
	}
	prop, tier := args[0], args[1]
	seed := envSeed()
	t0 := time.Now()
	fmt.Printf("simcheck run %s %s: VERIF_SEED=%d go=%s\n", prop, tier, seed, runtime.Version())
	pl, err := buildPlan(prop, tier, seed)
	if err != nil {
		fmt.Fprintln(os.Stderr, "simcheck:", err)
		return 2
	}
	work, err := os.MkdirTemp("", "simcheck-"+prop+"-")
	if err != nil {
		fmt.Fprintln(os.Stderr, "simcheck:", err)
		return 2
	}
	defer os.RemoveAll(work)
	os.Setenv("VERIF_WORK", work)

	// simulator self-check: the same scenario under different GOMAXPROCS must
	// give the same trace hash
	// (a failed self-check does not stop the run: every episode is its own
	// process with its own oracle; it turns a clean run into exit 2)
	selfMsg := selfCheck(pl)
	if selfMsg != "" {
		fmt.Println("HARNESS-ERROR: simulator self-check failed:", selfMsg)
	}

	par := runtime.NumCPU()
	if p := os.Getenv("VERIF_PAR"); p != "" {
		if n, err := strconv.Atoi(p); err == nil && n > 0 {
			par = n
		}
	}
	deadline := t0.Add(budget(tier))
	lastPrint := time.Now()
	outs := runAll(pl.scenarios, par, pl.batch, episodeWallLimit(), deadline, func(done int) {
		if time.Since(lastPrint) > 20*time.Second {
			lastPrint = time.Now()
			fmt.Printf("  ... %d/%d episodes, %.0fs\n", done, len(pl.scenarios), time.Since(t0).Seconds())
		}
	})
	truncated := len(outs) < len(pl.scenarios)

	var viols []violation
	var herrs []string
	for i := range outs {
		vs, he := episodeViolations(prop, &outs[i])
		if he != "" {
			herrs = append(herrs, he)
		}
		viols = append(viols, vs...)
	}
	if pl.post != nil {
		viols = append(viols, pl.post(outs)...)
	}
	for i, h := range herrs {
		if i >= 5 {
			break
		}
		fmt.Println("HARNESS-ERROR:", h)
	}
	if len(herrs) > 0 && len(viols) == 0 {
		return 2
	}

	// group violations by signature; minimise and report one per signature
	kf := loadFindings()
	bySig := map[string][]violation{}
	var sigs []string
	for _, v := range viols {
		if _, ok := bySig[v.Sig]; !ok {
			sigs = append(sigs, v.Sig)
		}
		bySig[v.Sig] = append(bySig[v.Sig], v)
	}
	sort.Strings(sigs)
	exit := 0
	nrep := 0
	reported := 0
	known := 0
	perClass := map[string]int{}
	printedKnown := map[string]bool{}
	for _, sig := range sigs {
		v := bySig[sig][0]
		// prefer the smallest failing scenario as the starting point
		for _, c := range bySig[sig][1:] {
			if scenarioSize(c.Sc) < scenarioSize(v.Sc) {
				v = c
			}
		}
		if k := kf.match(&v); k != nil {
			if !printedKnown[k.What] {
				printedKnown[k.What] = true
				fmt.Printf("KNOWN-FINDING: property=%s %s\n", prop, k.What)
			}
			known++
			continue
		}
		reported++
		perClass[v.Class]++
		if perClass[v.Class] > 2 || nrep >= 8 {
			fmt.Printf("  (further violation signature not minimised: %s)\n", sig)
			exit = 1
			continue
		}
		orig := v.Sc
		mv, log, minimised := minimise(pl, &v, 60*time.Second)
		nrep++
		path := writeReplay(mv, orig, minimised, log, seed, nrep)
		fmt.Printf("VIOLATION property=%s replay=%s\n", prop, path)
		fmt.Printf("  class=%s signature=%s (%d episodes)\n  %s\n", mv.Class, mv.Sig, len(bySig[sig]), strings.ReplaceAll(firstLines(mv.Msg, 12), "\n", "\n  "))
		exit = 1
	}

	ev := buildEvidence(pl, tier, seed, outs, len(viols), time.Since(t0), truncated)
	ev.Coverage["known_findings_reported"] = known
	if err := writeEvidence(ev); err != nil {
		fmt.Fprintln(os.Stderr, "simcheck: evidence:", err)
		return 2
	}
	fmt.Printf("simcheck run %s %s: %d episodes, %d violations (%d signatures, %d known), %.1fs\n", prop, tier, len(outs), len(viols), len(sigs), known, time.Since(t0).Seconds())
	if exit == 0 && (selfMsg != "" || len(herrs) > 0) {
		return 2
	}
	return exit
}

func scenarioSize(sc *Scenario) int {
	n := len(sc.Sched.Choices)
	for _, g := range sc.Groups {
		for _, j := range g {
			n += 100 + j.N + j.Cells*j.Cells + len(j.Ops)*10 + j.Points
		}
	}
	return n
}

// selfCheck runs two scenarios of the plan twice each under different
// GOMAXPROCS and compares trace hashes.
func selfCheck(pl *plan) string {
	var picks []*Scenario
	for _, sc := range pl.scenarios {
		if sc.Family == "load" || realTime(sc) {
			continue
		}
		picks = append(picks, sc)
		if len(picks) == 2 {
			break
		}
	}
	for _, sc := range picks {
		a := *sc
		b := *sc
		a.Env.GOMAXPROCS, b.Env.GOMAXPROCS = 1, 16
		oa := runChild([]*Scenario{&a}, 0, episodeWallLimit())
		ob := runChild([]*Scenario{&b}, 1, episodeWallLimit())
		if len(oa) != 1 || len(ob) != 1 || oa[0].res == nil || ob[0].res == nil {
			if (len(oa) == 1 && oa[0].crashed) || (len(ob) == 1 && ob[0].crashed) {
				// a crash is for the main run to classify
				return ""
			}
			return "self-check episode did not report"
		}
		ra, rb := oa[0].res, ob[0].res
		if ra.TraceHash != rb.TraceHash || ra.Steps != rb.Steps {
			return fmt.Sprintf("seed %d: trace %s/%d steps under GOMAXPROCS=1, %s/%d under 16", sc.Seed, ra.TraceHash, ra.Steps, rb.TraceHash, rb.Steps)
		}
	}
	return ""
}

// realTime: the scenario uses a fault that lives in real time or in the kernel (a pipe
// with a reader of its own, sleeps of the consumer, the producer or an evaluation): the
// order in which goroutines come to rest is then not the scheduler's alone, so its
// trace hash is not expected to repeat exactly.
func realTime(sc *Scenario) bool {
	if sc.ConsStallMs > 0 || sc.GCStormMs > 0 {
		return true
	}
	// a thinned-out set of automatic hooks (every m-th lock or atomic operation parks)
	// leaves goroutines that run in parallel between two hooks free to meet at the
	// un-hooked operations in either order: the verdicts stand, the trace may differ
	if sc.Sites["auto"] > 1 {
		return true
	}
	for _, g := range sc.Groups {
		for _, j := range g {
			if j.Fault.Kind == "fifo" || j.StallMs > 0 || j.EvalStallMs > 0 {
				return true
			}
		}
	}
	return false
}

func buildEvidence(pl *plan, tier string, seed uint64, outs []runOut, nviol int, wall time.Duration, truncated bool) *evidence {
	cov := map[string]any{}
	steps, choiceSteps, stall := 0, 0, 0
	faults := map[string]int{}
	probes := map[string]int{}
	sites := map[string]int{}
	switches := map[string]int{}
	traces := map[string]bool{}
	distinct := map[string]bool{}
	policies := map[string]int{}
	nontrivial := 0
	thirdParty := map[string]int{}
	caseEvals := 0
	maxPar := 0
	races := 0
	var samples []any
	for i := range outs {
		o := &outs[i]
		for _, rr := range o.races {
			if rr.ThirdParty {
				thirdParty[rr.Summary]++
			} else {
				races++
			}
		}
		if o.res == nil {
			continue
		}
		r := o.res
		steps += r.Steps
		choiceSteps += r.ChoiceSteps
		stall += r.StallSteps
		if r.MaxParked > maxPar {
			maxPar = r.MaxParked
		}
		for k, v := range r.Faults {
			faults[k] += v
		}
		for k, v := range r.Probes {
			probes[k] += v
		}
		for k, v := range r.SitePark {
			sites[k] += v
		}
		for k, v := range r.Switches {
			switches[k] += v
		}
		policies[o.sc.Sched.Policy]++
		if r.TraceHash != "" {
			traces[r.TraceHash] = true
		}
		if pl.cases != nil {
			n, keys := pl.cases(o)
			caseEvals += n
			for _, k := range keys {
				if !distinct[k] {
					distinct[k] = true
					nontrivial++
				}
			}
			if len(samples) < 3 && len(keys) > 0 {
				samples = append(samples, map[string]any{"case": keys[len(keys)/2], "cases_in_episode": n})
			}
			continue
		}
		nt, key := false, ""
		if pl.nontriv != nil {
			nt, key = pl.nontriv(o)
		} else {
			nt, key = r.ChoiceSteps > 0, r.TraceHash
		}
		if nt && !distinct[key] {
			distinct[key] = true
			nontrivial++
		}
		if len(samples) < 3 && nt {
			samples = append(samples, map[string]any{"scenario": sampleScenario(o.sc), "steps": r.Steps, "choice_steps": r.ChoiceSteps, "trace_hash": r.TraceHash, "verdict": r.Verdict, "faults_fired": r.Faults})
		}
	}
	if len(samples) == 0 && len(outs) > 0 {
		samples = append(samples, map[string]any{"scenario": sampleScenario(outs[0].sc)})
	}
	// probes: sites that some scenario of the plan switched on but no run ever parked at
	planned := map[string]bool{}
	for _, sc := range pl.scenarios {
		for name, mod := range sc.Sites {
			if mod > 0 {
				planned[name] = true
			}
		}
	}
	var never []string
	for name := range planned {
		if sites[name] == 0 {
			never = append(never, name)
		}
	}
	sort.Strings(never)
	hours := wall.Hours()
	if hours <= 0 {
		hours = 1e-9
	}
	cov["evaluations"] = len(outs)
	if pl.cases != nil {
		cov["evaluations"] = caseEvals
		cov["episodes"] = len(outs)
	}
	cov["distinct_nontrivial"] = nontrivial
	cov["rule"] = pl.rule
	cov["samples"] = samples
	cov["exhaustive"] = pl.exhaust && !truncated
	cov["episodes_planned"] = len(pl.scenarios)
	cov["truncated_by_budget"] = truncated
	cov["runs_per_hour"] = int(float64(len(outs)) / hours)
	{
		// the slowest episodes (wall clock, incl. process start): the margin to the watchdog
		type slow struct {
			s    float64
			note string
		}
		var top []slow
		for i := range outs {
			o := &outs[i]
			w := o.wall.Seconds()
			note := o.sc.Note
			if len(o.sc.Groups) > 0 && len(o.sc.Groups[0]) > 0 {
				j := o.sc.Groups[0][0]
				note = fmt.Sprintf("%s %s/%s/%d/%s", note, j.Kind, j.Model, j.Cells, j.Sink)
			}
			top = append(top, slow{w, note})
		}
		sort.Slice(top, func(a, b int) bool { return top[a].s > top[b].s })
		var lines []string
		for i := 0; i < len(top) && i < 5; i++ {
			lines = append(lines, fmt.Sprintf("%.1fs %s", top[i].s, top[i].note))
		}
		cov["slowest_episodes"] = lines
		cov["episode_wall_limit_s"] = episodeWallLimit().Seconds()
	}
	cov["simulated_time_steps"] = steps
	cov["steps_with_choice"] = choiceSteps
	cov["stall_steps_enforced"] = stall
	cov["max_parked_set"] = maxPar
	cov["distinct_schedules_by_trace_hash"] = len(traces)
	cov["distinct_context_switch_pairs"] = len(switches)
	cov["faults_fired"] = faults
	cov["probes_hit"] = probes
	cov["yield_site_hits"] = sites
	cov["yield_sites_switched_on_but_never_hit"] = never
	cov["schedule_policies"] = policies
	cov["race_reports"] = races
	cov["third_party_race_reports_not_judged"] = thirdParty
	cov["real_components"] = pl.real
	cov["stub_components"] = pl.stubs
	cov["seed_derivation"] = "episode seeds = splitmix64 stream of VERIF_SEED; every choice inside an episode comes from its seed"
	for k, v := range pl.extra {
		cov[k] = v
	}
	return &evidence{PropertyID: pl.prop, Tier: tier, Seed: seed, Level: pl.level, Coverage: cov, Assumptions: pl.assume, WallS: wall.Seconds(), Violations: nviol}
}

func sampleScenario(sc *Scenario) any {
	c := *sc
	if len(c.Sched.Choices) > 40 {
		c.Sched.Choices = c.Sched.Choices[:40]
		c.Sched.Sizes = nil
	}
	return &c
}

// ---------------------------------------------------------------------------
// replay

func cmdReplay(args []string) int {
	if len(args) < 1 {
		fmt.Fprintln(os.Stderr, "usage: simcheck replay <file>")
		return 2
	}
	b, err := os.ReadFile(args[0])
	if err != nil {
		fmt.Fprintln(os.Stderr, err)
		return 2
	}
	var rf replayFile
	if err := json.Unmarshal(b, &rf); err != nil {
		fmt.Fprintln(os.Stderr, err)
		return 2
	}
	work, _ := os.MkdirTemp("", "simcheck-replay-")
	defer os.RemoveAll(work)
	os.Setenv("VERIF_WORK", work)
	pl, err := buildPlan(rf.Property, "replay", rf.VerifSeed)
	if err != nil {
		fmt.Fprintln(os.Stderr, err)
		return 2
	}
	v, herr := reproduce(pl, rf.Scenario, rf.Reference)
	if herr != "" {
		fmt.Println("HARNESS-ERROR:", herr)
		return 2
	}
	if v == nil {
		fmt.Printf("replay %s: no violation on this tree\n", args[0])
		return 0
	}
	same := v.Class == rf.Class
	fmt.Printf("VIOLATION property=%s replay=%s\n  class=%s (recorded %s, same=%v) trace=%s (recorded %s)\n  %s\n", rf.Property, args[0], v.Class, rf.Class, same, v.Trace, rf.ExpectTrace, strings.ReplaceAll(firstLines(v.Msg, 12), "\n", "\n  "))
	return 1
}

// reproduce runs one scenario (and, for pair properties, its reference) and
// returns the violation it shows, if any.
func reproduce(pl *plan, sc *Scenario, ref *Scenario) (*violation, string) {
	scs := []*Scenario{sc}
	var outs []runOut
	if ref != nil {
		outs = append(outs, runChild([]*Scenario{ref}, 0, episodeWallLimit())...)
	}
	outs = append(outs, runChild(scs, 0, episodeWallLimit())...)
	var all []violation
	for i := range outs {
		vs, he := episodeViolations(pl.prop, &outs[i])
		if he != "" {
			return nil, he
		}
		all = append(all, vs...)
	}
	if pl.post != nil {
		all = append(all, pl.post(outs)...)
	}
	if len(all) == 0 {
		return nil, ""
	}
	return &all[0], ""
}

var _ = simcore.Mix
