package main

import (
	"path/filepath"

	"github.com/deadsy/sdfx/sdf"
	v2 "github.com/deadsy/sdfx/vec/v2"
	"github.com/deadsy/sdfx/vec/v2i"
	v3 "github.com/deadsy/sdfx/vec/v3"
	"github.com/deadsy/sdfx/vec/v3i"
)

// catBoxMesh returns a closed box (12 triangles, outward facing) centred on c.
func catBoxMesh(c, size v3.Vec) []*sdf.Triangle3 {
	h := size.MulScalar(0.5)
	p := func(sx, sy, sz float64) v3.Vec {
		return v3.Vec{X: c.X + sx*h.X, Y: c.Y + sy*h.Y, Z: c.Z + sz*h.Z}
	}
	quad := func(a, b, cc, d v3.Vec) []*sdf.Triangle3 {
		return []*sdf.Triangle3{{a, b, cc}, {a, cc, d}}
	}
	var m []*sdf.Triangle3
	m = append(m, quad(p(-1, -1, -1), p(-1, 1, -1), p(1, 1, -1), p(1, -1, -1))...) // -z
	m = append(m, quad(p(-1, -1, 1), p(1, -1, 1), p(1, 1, 1), p(-1, 1, 1))...)     // +z
	m = append(m, quad(p(-1, -1, -1), p(1, -1, -1), p(1, -1, 1), p(-1, -1, 1))...) // -y
	m = append(m, quad(p(-1, 1, -1), p(-1, 1, 1), p(1, 1, 1), p(1, 1, -1))...)     // +y
	m = append(m, quad(p(-1, -1, -1), p(-1, -1, 1), p(-1, 1, 1), p(-1, 1, -1))...) // -x
	m = append(m, quad(p(1, -1, -1), p(1, 1, -1), p(1, 1, 1), p(1, -1, 1))...)     // +x
	return m
}

// catTetraMesh returns a closed tetrahedron (4 triangles, outward facing).
func catTetraMesh() []*sdf.Triangle3 {
	a := v3.Vec{X: 4, Y: 4, Z: 4}
	b := v3.Vec{X: -4, Y: -4, Z: 4}
	c := v3.Vec{X: -4, Y: 4, Z: -4}
	d := v3.Vec{X: 4, Y: -4, Z: -4}
	return []*sdf.Triangle3{{a, b, d}, {a, c, b}, {a, d, c}, {b, c, d}}
}

// catLMesh returns the line segments of a closed L shaped polygon.
func catLMesh() []*sdf.Line2 {
	v := []v2.Vec{{X: 0, Y: 0}, {X: 10, Y: 0}, {X: 10, Y: 4}, {X: 4, Y: 4}, {X: 4, Y: 10}, {X: 0, Y: 10}}
	out := make([]*sdf.Line2, len(v))
	for i := range v {
		out[i] = &sdf.Line2{v[i], v[(i+1)%len(v)]}
	}
	return out
}

func catOffsetBox2(size v2.Vec, round float64, ofs v2.Vec) sdf.SDF2 {
	return sdf.Transform2D(sdf.Box2D(size, round), sdf.Translate2d(ofs))
}

func catOffsetSphere(r float64, ofs v3.Vec) sdf.SDF3 {
	return sdf.Transform3D(must3(sdf.Sphere3D(r)), sdf.Translate3d(ofs))
}

func init() {
	register(catEntry{Name: "cache2d-extrude", Ctors: []string{"sdf.Cache2D", "sdf.Extrude3D", "sdf.Polygon2D"},
		Build3: func(lw *leafWrapper) sdf.SDF3 { return sdf.Extrude3D(sdf.Cache2D(lw.w2(starPolygon())), 6) }})
	register(catEntry{Name: "cache2d", Ctors: []string{"sdf.Cache2D"},
		Build2: func(lw *leafWrapper) sdf.SDF2 { return sdf.Cache2D(lw.w2(starPolygon())) }})

	//-------------------------------------------------------------------------
	// 2D primitives

	register(catEntry{Name: "circle2d", Ctors: []string{"sdf.Circle2D"},
		Build2: func(lw *leafWrapper) sdf.SDF2 { return must2(sdf.Circle2D(4)) }})
	register(catEntry{Name: "box2d", Ctors: []string{"sdf.Box2D"},
		Build2: func(lw *leafWrapper) sdf.SDF2 { return sdf.Box2D(v2.Vec{X: 6, Y: 4}, 0) }})
	register(catEntry{Name: "box2d-round", Ctors: []string{"sdf.Box2D"},
		Build2: func(lw *leafWrapper) sdf.SDF2 { return sdf.Box2D(v2.Vec{X: 6, Y: 4}, 0.75) }})
	register(catEntry{Name: "line2d", Ctors: []string{"sdf.Line2D"},
		Build2: func(lw *leafWrapper) sdf.SDF2 { return sdf.Line2D(8, 1) }})
	register(catEntry{Name: "polygon2d", Ctors: []string{"sdf.Polygon2D", "sdf.Mesh2D"},
		Build2: func(lw *leafWrapper) sdf.SDF2 { return starPolygon() }})
	register(catEntry{Name: "mesh2d", Ctors: []string{"sdf.Mesh2D"},
		Build2: func(lw *leafWrapper) sdf.SDF2 { return must2(sdf.Mesh2D(catLMesh())) }})
	register(catEntry{Name: "mesh2d-slow", Ctors: []string{"sdf.Mesh2DSlow"},
		Build2: func(lw *leafWrapper) sdf.SDF2 { return must2(sdf.Mesh2DSlow(catLMesh())) }})
	register(catEntry{Name: "bezier2d", Ctors: []string{"sdf.Polygon2D", "sdf.Mesh2D"}, Shared: true,
		Build2: func(lw *leafWrapper) sdf.SDF2 { return bezierProfile() }})
	// Short text: one Evaluate measures ~4us, so not Heavy. Shared: glyphs are built with NewBezier.
	register(catEntry{Name: "text2d", Ctors: []string{"sdf.Text2D"}, Shared: true,
		Build2: func(lw *leafWrapper) sdf.SDF2 {
			f, err := sdf.LoadFont(filepath.Join(repoDir(), "files", "cmr10.ttf"))
			if err != nil {
				panic("text2d: " + err.Error())
			}
			return must2(sdf.Text2D(f, sdf.NewText("Hi!\nsdf"), 10))
		}})
	register(catEntry{Name: "flange1", Ctors: []string{"sdf.NewFlange1"},
		Build2: func(lw *leafWrapper) sdf.SDF2 { return sdf.NewFlange1(30, 20, 10) }})
	register(catEntry{Name: "flat-flank-cam", Ctors: []string{"sdf.FlatFlankCam2D"},
		Build2: func(lw *leafWrapper) sdf.SDF2 { return must2(sdf.FlatFlankCam2D(30, 20, 5)) }})
	register(catEntry{Name: "make-flat-flank-cam", Ctors: []string{"sdf.MakeFlatFlankCam", "sdf.FlatFlankCam2D"},
		Build2: func(lw *leafWrapper) sdf.SDF2 { return must2(sdf.MakeFlatFlankCam(0.094, sdf.DtoR(2.0*57.5), 0.625)) }})
	register(catEntry{Name: "three-arc-cam", Ctors: []string{"sdf.ThreeArcCam2D"},
		Build2: func(lw *leafWrapper) sdf.SDF2 { return must2(sdf.ThreeArcCam2D(30, 20, 5, 200)) }})
	register(catEntry{Name: "make-three-arc-cam", Ctors: []string{"sdf.MakeThreeArcCam", "sdf.ThreeArcCam2D"},
		Build2: func(lw *leafWrapper) sdf.SDF2 { return must2(sdf.MakeThreeArcCam(0.1, sdf.DtoR(2.0*80), 0.7, 1.1)) }})
	// Heavy: Evaluate prints a debug line to stdout per Newton-Raphson iteration (sdf/spline.go).
	register(catEntry{Name: "cubic-spline2d", Ctors: []string{"sdf.CubicSpline2D"}, Heavy: true,
		Build2: func(lw *leafWrapper) sdf.SDF2 {
			// 10 knots = 9 splines: CubicSplineSDF2.Evaluate has the spline count hard-coded to 9.
			knots := []v2.Vec{{X: 0, Y: 0}, {X: 3, Y: 4}, {X: 6, Y: 1}, {X: 9, Y: 5}, {X: 12, Y: 2},
				{X: 15, Y: 6}, {X: 18, Y: 3}, {X: 21, Y: 7}, {X: 24, Y: 4}, {X: 27, Y: 8}}
			return must2(sdf.CubicSpline2D(knots))
		}})
	register(catEntry{Name: "gear-rack2d", Ctors: []string{"sdf.GearRack2D"},
		Build2: func(lw *leafWrapper) sdf.SDF2 {
			return must2(sdf.GearRack2D(&sdf.GearRackParms{
				NumberTeeth:   11,
				Module:        2,
				PressureAngle: sdf.DtoR(20),
				Backlash:      0.05,
				BaseHeight:    3,
			}))
		}})
	register(catEntry{Name: "arc-spiral2d", Ctors: []string{"sdf.ArcSpiral2D"},
		Build2: func(lw *leafWrapper) sdf.SDF2 { return must2(sdf.ArcSpiral2D(1.0, 20.0, 0.25*sdf.Pi, 4*sdf.Tau, 1.0)) }})
	register(catEntry{Name: "iso-thread-external", Ctors: []string{"sdf.ISOThread"},
		Build2: func(lw *leafWrapper) sdf.SDF2 { return must2(sdf.ISOThread(5, 2, true)) }})
	register(catEntry{Name: "iso-thread-internal", Ctors: []string{"sdf.ISOThread"},
		Build2: func(lw *leafWrapper) sdf.SDF2 { return must2(sdf.ISOThread(5, 2, false)) }})
	register(catEntry{Name: "acme-thread", Ctors: []string{"sdf.AcmeThread"},
		Build2: func(lw *leafWrapper) sdf.SDF2 { return must2(sdf.AcmeThread(5, 2)) }})
	register(catEntry{Name: "ansi-buttress-thread", Ctors: []string{"sdf.ANSIButtressThread"},
		Build2: func(lw *leafWrapper) sdf.SDF2 { return must2(sdf.ANSIButtressThread(5, 2)) }})
	register(catEntry{Name: "plastic-buttress-thread", Ctors: []string{"sdf.PlasticButtressThread"},
		Build2: func(lw *leafWrapper) sdf.SDF2 { return must2(sdf.PlasticButtressThread(5, 2)) }})

	//-------------------------------------------------------------------------
	// 2D combinators

	register(catEntry{Name: "offset2d", Ctors: []string{"sdf.Offset2D"},
		Build2: func(lw *leafWrapper) sdf.SDF2 { return sdf.Offset2D(lw.w2(sdf.Box2D(v2.Vec{X: 6, Y: 4}, 0)), 1) }})
	register(catEntry{Name: "offset2d-negative", Ctors: []string{"sdf.Offset2D"},
		Build2: func(lw *leafWrapper) sdf.SDF2 { return sdf.Offset2D(lw.w2(starPolygon()), -0.5) }})
	register(catEntry{Name: "union2d", Ctors: []string{"sdf.Union2D"},
		Build2: func(lw *leafWrapper) sdf.SDF2 {
			a := lw.w2(must2(sdf.Circle2D(4)))
			b := lw.w2(catOffsetBox2(v2.Vec{X: 5, Y: 5}, 0.5, v2.Vec{X: 3, Y: 2}))
			c := lw.w2(catOffsetBox2(v2.Vec{X: 2, Y: 8}, 0, v2.Vec{X: -3, Y: 0}))
			return sdf.Union2D(a, b, c)
		}})
	register(catEntry{Name: "union2d-blend", Ctors: []string{"sdf.Union2D"},
		Build2: func(lw *leafWrapper) sdf.SDF2 {
			a := lw.w2(must2(sdf.Circle2D(4)))
			b := lw.w2(catOffsetBox2(v2.Vec{X: 5, Y: 5}, 0.5, v2.Vec{X: 3, Y: 2}))
			u := sdf.Union2D(a, b)
			u.(*sdf.UnionSDF2).SetMin(sdf.PolyMin(1.0))
			return u
		}})
	register(catEntry{Name: "difference2d", Ctors: []string{"sdf.Difference2D"},
		Build2: func(lw *leafWrapper) sdf.SDF2 {
			a := lw.w2(sdf.Box2D(v2.Vec{X: 8, Y: 6}, 1))
			b := lw.w2(must2(sdf.Circle2D(2)))
			return sdf.Difference2D(a, b)
		}})
	register(catEntry{Name: "intersect2d", Ctors: []string{"sdf.Intersect2D"},
		Build2: func(lw *leafWrapper) sdf.SDF2 {
			a := lw.w2(must2(sdf.Circle2D(4)))
			b := lw.w2(catOffsetBox2(v2.Vec{X: 6, Y: 6}, 0, v2.Vec{X: 2, Y: 1}))
			return sdf.Intersect2D(a, b)
		}})
	register(catEntry{Name: "cut2d", Ctors: []string{"sdf.Cut2D"},
		Build2: func(lw *leafWrapper) sdf.SDF2 {
			return sdf.Cut2D(lw.w2(must2(sdf.Circle2D(4))), v2.Vec{X: 0.5, Y: 0}, v2.Vec{X: 1, Y: 2})
		}})
	register(catEntry{Name: "transform2d", Ctors: []string{"sdf.Transform2D"},
		Build2: func(lw *leafWrapper) sdf.SDF2 {
			m := sdf.Translate2d(v2.Vec{X: 3, Y: -2}).Mul(sdf.Rotate2d(sdf.DtoR(30)))
			return sdf.Transform2D(lw.w2(sdf.Box2D(v2.Vec{X: 6, Y: 3}, 0.5)), m)
		}})
	register(catEntry{Name: "transform2d-mirror", Ctors: []string{"sdf.Transform2D"},
		Build2: func(lw *leafWrapper) sdf.SDF2 { return sdf.Transform2D(lw.w2(starPolygon()), sdf.MirrorX()) }})
	register(catEntry{Name: "scale-uniform2d", Ctors: []string{"sdf.ScaleUniform2D"},
		Build2: func(lw *leafWrapper) sdf.SDF2 { return sdf.ScaleUniform2D(lw.w2(starPolygon()), 0.5) }})
	register(catEntry{Name: "center2d", Ctors: []string{"sdf.Center2D"},
		Build2: func(lw *leafWrapper) sdf.SDF2 { return sdf.Center2D(lw.w2(starPolygon())) }})
	register(catEntry{Name: "center-and-scale2d", Ctors: []string{"sdf.CenterAndScale2D"},
		Build2: func(lw *leafWrapper) sdf.SDF2 { return sdf.CenterAndScale2D(lw.w2(starPolygon()), 1.5) }})
	register(catEntry{Name: "array2d", Ctors: []string{"sdf.Array2D"},
		Build2: func(lw *leafWrapper) sdf.SDF2 {
			return sdf.Array2D(lw.w2(must2(sdf.Circle2D(2))), v2i.Vec{X: 3, Y: 2}, v2.Vec{X: 5, Y: 6})
		}})
	register(catEntry{Name: "array2d-blend", Ctors: []string{"sdf.Array2D"},
		Build2: func(lw *leafWrapper) sdf.SDF2 {
			a := sdf.Array2D(lw.w2(must2(sdf.Circle2D(2))), v2i.Vec{X: 2, Y: 2}, v2.Vec{X: 3.5, Y: 3.5})
			a.(*sdf.ArraySDF2).SetMin(sdf.PolyMin(0.8))
			return a
		}})
	register(catEntry{Name: "rotate-union2d", Ctors: []string{"sdf.RotateUnion2D"},
		Build2: func(lw *leafWrapper) sdf.SDF2 {
			t := lw.w2(catOffsetBox2(v2.Vec{X: 4, Y: 1}, 0.2, v2.Vec{X: 4, Y: 0}))
			return sdf.RotateUnion2D(t, 5, sdf.Rotate2d(sdf.DtoR(72)))
		}})
	register(catEntry{Name: "rotate-copy2d", Ctors: []string{"sdf.RotateCopy2D"},
		Build2: func(lw *leafWrapper) sdf.SDF2 {
			t := lw.w2(catOffsetBox2(v2.Vec{X: 2, Y: 1}, 0.2, v2.Vec{X: 5, Y: 0}))
			return sdf.RotateCopy2D(t, 9)
		}})
	register(catEntry{Name: "elongate2d", Ctors: []string{"sdf.Elongate2D"},
		Build2: func(lw *leafWrapper) sdf.SDF2 {
			return sdf.Elongate2D(lw.w2(must2(sdf.Circle2D(2))), v2.Vec{X: 3, Y: 1})
		}})
	register(catEntry{Name: "line-of2d", Ctors: []string{"sdf.LineOf2D"},
		Build2: func(lw *leafWrapper) sdf.SDF2 {
			return sdf.LineOf2D(lw.w2(must2(sdf.Circle2D(1))), v2.Vec{X: 0, Y: 0}, v2.Vec{X: 20, Y: 5}, "xx.xx")
		}})
	register(catEntry{Name: "multi2d", Ctors: []string{"sdf.Multi2D"},
		Build2: func(lw *leafWrapper) sdf.SDF2 {
			return sdf.Multi2D(lw.w2(sdf.Box2D(v2.Vec{X: 2, Y: 2}, 0.3)), v2.VecSet{{X: 0, Y: 0}, {X: 4, Y: 1}, {X: -3, Y: 5}})
		}})
	register(catEntry{Name: "slice2d", Ctors: []string{"sdf.Slice2D"},
		Build2: func(lw *leafWrapper) sdf.SDF2 {
			s := lw.w3(must3(sdf.Cone3D(10, 5, 2, 0.5)))
			return sdf.Slice2D(s, v3.Vec{X: 0, Y: 0, Z: 1}, v3.Vec{X: 1, Y: 2, Z: 3})
		}})
	register(catEntry{Name: "slice2d-axis", Ctors: []string{"sdf.Slice2D"},
		Build2: func(lw *leafWrapper) sdf.SDF2 {
			s := lw.w3(must3(sdf.Box3D(v3.Vec{X: 6, Y: 4, Z: 8}, 1)))
			return sdf.Slice2D(s, v3.Vec{}, v3.Vec{X: 0, Y: 0, Z: 1})
		}})

	//-------------------------------------------------------------------------
	// 3D primitives

	register(catEntry{Name: "sphere3d", Ctors: []string{"sdf.Sphere3D"},
		Build3: func(lw *leafWrapper) sdf.SDF3 { return must3(sdf.Sphere3D(5)) }})
	register(catEntry{Name: "box3d", Ctors: []string{"sdf.Box3D"},
		Build3: func(lw *leafWrapper) sdf.SDF3 { return must3(sdf.Box3D(v3.Vec{X: 6, Y: 4, Z: 8}, 0)) }})
	register(catEntry{Name: "box3d-round", Ctors: []string{"sdf.Box3D"},
		Build3: func(lw *leafWrapper) sdf.SDF3 { return must3(sdf.Box3D(v3.Vec{X: 6, Y: 4, Z: 8}, 1)) }})
	register(catEntry{Name: "cylinder3d", Ctors: []string{"sdf.Cylinder3D"},
		Build3: func(lw *leafWrapper) sdf.SDF3 { return must3(sdf.Cylinder3D(10, 3, 0.5)) }})
	register(catEntry{Name: "capsule3d", Ctors: []string{"sdf.Capsule3D"},
		Build3: func(lw *leafWrapper) sdf.SDF3 { return must3(sdf.Capsule3D(10, 2)) }})
	register(catEntry{Name: "cone3d", Ctors: []string{"sdf.Cone3D"},
		Build3: func(lw *leafWrapper) sdf.SDF3 { return must3(sdf.Cone3D(10, 5, 2, 0.5)) }})
	register(catEntry{Name: "gyroid3d", Ctors: []string{"sdf.Gyroid3D", "sdf.Intersect3D"},
		Build3: func(lw *leafWrapper) sdf.SDF3 {
			g := lw.w3(must3(sdf.Gyroid3D(v3.Vec{X: 4, Y: 4, Z: 4})))
			b := lw.w3(must3(sdf.Box3D(v3.Vec{X: 10, Y: 10, Z: 10}, 0)))
			return sdf.Intersect3D(b, g)
		}})
	register(catEntry{Name: "gyroid3d-shell", Ctors: []string{"sdf.Gyroid3D", "sdf.Shell3D", "sdf.Intersect3D"},
		Build3: func(lw *leafWrapper) sdf.SDF3 {
			g := must3(sdf.Shell3D(lw.w3(must3(sdf.Gyroid3D(v3.Vec{X: 5, Y: 5, Z: 5}))), 0.4))
			return sdf.Intersect3D(lw.w3(must3(sdf.Sphere3D(6))), g)
		}})
	register(catEntry{Name: "mesh3d", Ctors: []string{"sdf.Mesh3D"},
		Build3: func(lw *leafWrapper) sdf.SDF3 {
			return must3(sdf.Mesh3D(catBoxMesh(v3.Vec{X: 1, Y: 2, Z: 3}, v3.Vec{X: 6, Y: 4, Z: 8})))
		}})
	register(catEntry{Name: "mesh3d-slow", Ctors: []string{"sdf.Mesh3DSlow"},
		Build3: func(lw *leafWrapper) sdf.SDF3 {
			return must3(sdf.Mesh3DSlow(catBoxMesh(v3.Vec{X: 1, Y: 2, Z: 3}, v3.Vec{X: 6, Y: 4, Z: 8})))
		}})
	register(catEntry{Name: "mesh3d-slow-tetra", Ctors: []string{"sdf.Mesh3DSlow"},
		Build3: func(lw *leafWrapper) sdf.SDF3 { return must3(sdf.Mesh3DSlow(catTetraMesh())) }})

	//-------------------------------------------------------------------------
	// 2D -> 3D

	register(catEntry{Name: "extrude3d", Ctors: []string{"sdf.Extrude3D"},
		Build3: func(lw *leafWrapper) sdf.SDF3 { return sdf.Extrude3D(lw.w2(starPolygon()), 6) }})
	register(catEntry{Name: "twist-extrude3d", Ctors: []string{"sdf.TwistExtrude3D"},
		Build3: func(lw *leafWrapper) sdf.SDF3 { return sdf.TwistExtrude3D(lw.w2(starPolygon()), 8, sdf.DtoR(60)) }})
	register(catEntry{Name: "twist-extrude3d-bezier", Ctors: []string{"sdf.TwistExtrude3D"}, Shared: true,
		Build3: func(lw *leafWrapper) sdf.SDF3 { return sdf.TwistExtrude3D(lw.w2(bezierProfile()), 8, sdf.DtoR(40)) }})
	register(catEntry{Name: "scale-extrude3d", Ctors: []string{"sdf.ScaleExtrude3D"},
		Build3: func(lw *leafWrapper) sdf.SDF3 {
			return sdf.ScaleExtrude3D(lw.w2(sdf.Box2D(v2.Vec{X: 8, Y: 6}, 1)), 8, v2.Vec{X: 0.5, Y: 0.75})
		}})
	register(catEntry{Name: "scale-twist-extrude3d", Ctors: []string{"sdf.ScaleTwistExtrude3D"},
		Build3: func(lw *leafWrapper) sdf.SDF3 {
			return sdf.ScaleTwistExtrude3D(lw.w2(sdf.Box2D(v2.Vec{X: 8, Y: 6}, 1)), 8, sdf.DtoR(90), v2.Vec{X: 0.5, Y: 0.5})
		}})
	register(catEntry{Name: "extrude-rounded3d", Ctors: []string{"sdf.ExtrudeRounded3D"},
		Build3: func(lw *leafWrapper) sdf.SDF3 { return must3(sdf.ExtrudeRounded3D(lw.w2(starPolygon()), 4, 0.5)) }})
	register(catEntry{Name: "loft3d", Ctors: []string{"sdf.Loft3D"},
		Build3: func(lw *leafWrapper) sdf.SDF3 {
			a := lw.w2(must2(sdf.Circle2D(4)))
			b := lw.w2(sdf.Box2D(v2.Vec{X: 6, Y: 6}, 0.5))
			return must3(sdf.Loft3D(a, b, 10, 0.5))
		}})
	register(catEntry{Name: "loft3d-sharp", Ctors: []string{"sdf.Loft3D"},
		Build3: func(lw *leafWrapper) sdf.SDF3 {
			a := lw.w2(sdf.Box2D(v2.Vec{X: 8, Y: 4}, 0))
			b := lw.w2(must2(sdf.Circle2D(2)))
			return must3(sdf.Loft3D(a, b, 10, 0))
		}})
	register(catEntry{Name: "revolve3d", Ctors: []string{"sdf.Revolve3D"},
		Build3: func(lw *leafWrapper) sdf.SDF3 {
			p := sdf.Transform2D(lw.w2(sdf.Box2D(v2.Vec{X: 3, Y: 6}, 0.5)), sdf.Translate2d(v2.Vec{X: 5, Y: 0}))
			return must3(sdf.Revolve3D(p))
		}})
	register(catEntry{Name: "revolve-theta3d", Ctors: []string{"sdf.RevolveTheta3D"},
		Build3: func(lw *leafWrapper) sdf.SDF3 {
			p := sdf.Transform2D(lw.w2(sdf.Box2D(v2.Vec{X: 3, Y: 6}, 0.5)), sdf.Translate2d(v2.Vec{X: 5, Y: 0}))
			return must3(sdf.RevolveTheta3D(p, sdf.DtoR(270)))
		}})
	register(catEntry{Name: "revolve-theta3d-small", Ctors: []string{"sdf.RevolveTheta3D"},
		Build3: func(lw *leafWrapper) sdf.SDF3 {
			p := sdf.Transform2D(lw.w2(must2(sdf.Circle2D(2))), sdf.Translate2d(v2.Vec{X: 6, Y: 0}))
			return must3(sdf.RevolveTheta3D(p, sdf.DtoR(60)))
		}})

	//-------------------------------------------------------------------------
	// screws

	register(catEntry{Name: "screw3d-iso", Ctors: []string{"sdf.Screw3D", "sdf.ISOThread"},
		Build3: func(lw *leafWrapper) sdf.SDF3 {
			return must3(sdf.Screw3D(lw.w2(must2(sdf.ISOThread(5, 2, true))), 8, 0, 2, 1))
		}})
	register(catEntry{Name: "screw3d-iso-internal-lh", Ctors: []string{"sdf.Screw3D", "sdf.ISOThread"},
		Build3: func(lw *leafWrapper) sdf.SDF3 {
			return must3(sdf.Screw3D(lw.w2(must2(sdf.ISOThread(5, 2, false))), 8, 0, 2, -1))
		}})
	register(catEntry{Name: "screw3d-acme", Ctors: []string{"sdf.Screw3D", "sdf.AcmeThread"},
		Build3: func(lw *leafWrapper) sdf.SDF3 {
			return must3(sdf.Screw3D(lw.w2(must2(sdf.AcmeThread(5, 2))), 10, 0, 2, 2))
		}})
	register(catEntry{Name: "screw3d-ansi-buttress", Ctors: []string{"sdf.Screw3D", "sdf.ANSIButtressThread"},
		Build3: func(lw *leafWrapper) sdf.SDF3 {
			return must3(sdf.Screw3D(lw.w2(must2(sdf.ANSIButtressThread(5, 2))), 8, 0, 2, 1))
		}})
	register(catEntry{Name: "screw3d-plastic-buttress", Ctors: []string{"sdf.Screw3D", "sdf.PlasticButtressThread"},
		Build3: func(lw *leafWrapper) sdf.SDF3 {
			return must3(sdf.Screw3D(lw.w2(must2(sdf.PlasticButtressThread(5, 2))), 8, 0, 2, 1))
		}})
	register(catEntry{Name: "screw3d-taper", Ctors: []string{"sdf.Screw3D", "sdf.ISOThread"},
		Build3: func(lw *leafWrapper) sdf.SDF3 {
			return must3(sdf.Screw3D(lw.w2(must2(sdf.ISOThread(6, 1.5, true))), 8, sdf.DtoR(5), 1.5, 1))
		}})

	//-------------------------------------------------------------------------
	// 3D combinators

	register(catEntry{Name: "transform3d", Ctors: []string{"sdf.Transform3D"},
		Build3: func(lw *leafWrapper) sdf.SDF3 {
			m := sdf.Translate3d(v3.Vec{X: 2, Y: -1, Z: 3}).Mul(sdf.RotateX(sdf.DtoR(20))).Mul(sdf.RotateZ(sdf.DtoR(35)))
			return sdf.Transform3D(lw.w3(must3(sdf.Box3D(v3.Vec{X: 6, Y: 4, Z: 8}, 0.5))), m)
		}})
	register(catEntry{Name: "transform3d-mirror", Ctors: []string{"sdf.Transform3D"},
		Build3: func(lw *leafWrapper) sdf.SDF3 {
			return sdf.Transform3D(lw.w3(must3(sdf.Cone3D(10, 5, 2, 0.5))), sdf.MirrorXY())
		}})
	register(catEntry{Name: "scale-uniform3d", Ctors: []string{"sdf.ScaleUniform3D"},
		Build3: func(lw *leafWrapper) sdf.SDF3 {
			return sdf.ScaleUniform3D(lw.w3(must3(sdf.Cylinder3D(10, 3, 0.5))), 0.5)
		}})
	register(catEntry{Name: "union3d", Ctors: []string{"sdf.Union3D"},
		Build3: func(lw *leafWrapper) sdf.SDF3 {
			a := lw.w3(must3(sdf.Sphere3D(5)))
			b := lw.w3(sdf.Transform3D(must3(sdf.Box3D(v3.Vec{X: 6, Y: 6, Z: 6}, 0.5)), sdf.Translate3d(v3.Vec{X: 4, Y: 1, Z: 2})))
			c := lw.w3(must3(sdf.Cylinder3D(14, 2, 0)))
			return sdf.Union3D(a, b, c)
		}})
	register(catEntry{Name: "union3d-blend", Ctors: []string{"sdf.Union3D"},
		Build3: func(lw *leafWrapper) sdf.SDF3 {
			a := lw.w3(must3(sdf.Sphere3D(4)))
			b := lw.w3(catOffsetSphere(3, v3.Vec{X: 5, Y: 0, Z: 0}))
			u := sdf.Union3D(a, b)
			u.(*sdf.UnionSDF3).SetMin(sdf.PolyMin(1.5))
			return u
		}})
	register(catEntry{Name: "difference3d", Ctors: []string{"sdf.Difference3D"},
		Build3: func(lw *leafWrapper) sdf.SDF3 {
			a := lw.w3(must3(sdf.Box3D(v3.Vec{X: 10, Y: 8, Z: 6}, 1)))
			b := lw.w3(must3(sdf.Cylinder3D(12, 2, 0)))
			return sdf.Difference3D(a, b)
		}})
	register(catEntry{Name: "intersect3d", Ctors: []string{"sdf.Intersect3D"},
		Build3: func(lw *leafWrapper) sdf.SDF3 {
			a := lw.w3(must3(sdf.Sphere3D(5)))
			b := lw.w3(must3(sdf.Box3D(v3.Vec{X: 8, Y: 8, Z: 8}, 0)))
			return sdf.Intersect3D(a, b)
		}})
	register(catEntry{Name: "cut3d", Ctors: []string{"sdf.Cut3D"},
		Build3: func(lw *leafWrapper) sdf.SDF3 {
			return sdf.Cut3D(lw.w3(must3(sdf.Sphere3D(5))), v3.Vec{X: 0, Y: 0, Z: 1}, v3.Vec{X: 1, Y: 1, Z: 2})
		}})
	register(catEntry{Name: "elongate3d", Ctors: []string{"sdf.Elongate3D"},
		Build3: func(lw *leafWrapper) sdf.SDF3 {
			return sdf.Elongate3D(lw.w3(must3(sdf.Sphere3D(2))), v3.Vec{X: 3, Y: 1, Z: 0.5})
		}})
	register(catEntry{Name: "array3d", Ctors: []string{"sdf.Array3D"},
		Build3: func(lw *leafWrapper) sdf.SDF3 {
			return sdf.Array3D(lw.w3(must3(sdf.Sphere3D(2))), v3i.Vec{X: 2, Y: 2, Z: 2}, v3.Vec{X: 5, Y: 5, Z: 6})
		}})
	register(catEntry{Name: "array3d-blend", Ctors: []string{"sdf.Array3D"},
		Build3: func(lw *leafWrapper) sdf.SDF3 {
			a := sdf.Array3D(lw.w3(must3(sdf.Sphere3D(2))), v3i.Vec{X: 3, Y: 1, Z: 1}, v3.Vec{X: 3.5, Y: 0, Z: 0})
			a.(*sdf.ArraySDF3).SetMin(sdf.PolyMin(0.8))
			return a
		}})
	register(catEntry{Name: "rotate-union3d", Ctors: []string{"sdf.RotateUnion3D"},
		Build3: func(lw *leafWrapper) sdf.SDF3 {
			s := lw.w3(catOffsetSphere(2, v3.Vec{X: 5, Y: 0, Z: 0}))
			return sdf.RotateUnion3D(s, 6, sdf.RotateZ(sdf.DtoR(60)))
		}})
	register(catEntry{Name: "rotate-copy3d", Ctors: []string{"sdf.RotateCopy3D"},
		Build3: func(lw *leafWrapper) sdf.SDF3 {
			s := lw.w3(sdf.Transform3D(must3(sdf.Box3D(v3.Vec{X: 2, Y: 1, Z: 3}, 0.2)), sdf.Translate3d(v3.Vec{X: 5, Y: 0, Z: 0})))
			return sdf.RotateCopy3D(s, 7)
		}})
	register(catEntry{Name: "offset3d", Ctors: []string{"sdf.Offset3D"},
		Build3: func(lw *leafWrapper) sdf.SDF3 {
			return sdf.Offset3D(lw.w3(must3(sdf.Box3D(v3.Vec{X: 6, Y: 4, Z: 8}, 0))), 1)
		}})
	register(catEntry{Name: "shell3d", Ctors: []string{"sdf.Shell3D"},
		Build3: func(lw *leafWrapper) sdf.SDF3 { return must3(sdf.Shell3D(lw.w3(must3(sdf.Sphere3D(5))), 0.5)) }})
	register(catEntry{Name: "line-of3d", Ctors: []string{"sdf.LineOf3D"},
		Build3: func(lw *leafWrapper) sdf.SDF3 {
			return sdf.LineOf3D(lw.w3(must3(sdf.Sphere3D(1))), v3.Vec{}, v3.Vec{X: 20, Y: 5, Z: 3}, "x.xxx")
		}})
	register(catEntry{Name: "multi3d", Ctors: []string{"sdf.Multi3D"},
		Build3: func(lw *leafWrapper) sdf.SDF3 {
			return sdf.Multi3D(lw.w3(must3(sdf.Box3D(v3.Vec{X: 2, Y: 2, Z: 2}, 0.3))), v3.VecSet{{X: 0, Y: 0, Z: 0}, {X: 4, Y: 1, Z: 2}, {X: -3, Y: 5, Z: -1}})
		}})
	register(catEntry{Name: "orient3d", Ctors: []string{"sdf.Orient3D"},
		Build3: func(lw *leafWrapper) sdf.SDF3 {
			s := lw.w3(must3(sdf.Cylinder3D(10, 1, 0)))
			return sdf.Orient3D(s, v3.Vec{X: 0, Y: 0, Z: 1}, v3.VecSet{{X: 1, Y: 0, Z: 0}, {X: 0, Y: 1, Z: 0}, {X: 1, Y: 1, Z: 1}})
		}})
	register(catEntry{Name: "voxel3d", Ctors: []string{"sdf.NewVoxelSDF3"},
		Build3: func(lw *leafWrapper) sdf.SDF3 { return sdf.NewVoxelSDF3(lw.w3(must3(sdf.Sphere3D(5))), 10, nil) }})
	register(catEntry{Name: "voxel3d-csg", Ctors: []string{"sdf.NewVoxelSDF3", "sdf.Difference3D"},
		Build3: func(lw *leafWrapper) sdf.SDF3 {
			a := lw.w3(must3(sdf.Box3D(v3.Vec{X: 10, Y: 8, Z: 6}, 1)))
			b := lw.w3(must3(sdf.Cylinder3D(12, 2, 0)))
			return sdf.NewVoxelSDF3(sdf.Difference3D(a, b), 8, nil)
		}})
}
