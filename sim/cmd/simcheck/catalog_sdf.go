package main

import (
	"github.com/deadsy/sdfx/sdf"
)

func init() {
	register(catEntry{Name: "cache2d-extrude", Ctors: []string{"sdf.Cache2D", "sdf.Extrude3D", "sdf.Polygon2D"},
		Build3: func(lw *leafWrapper) sdf.SDF3 { return sdf.Extrude3D(sdf.Cache2D(lw.w2(starPolygon())), 6) }})
	register(catEntry{Name: "cache2d", Ctors: []string{"sdf.Cache2D"},
		Build2: func(lw *leafWrapper) sdf.SDF2 { return sdf.Cache2D(lw.w2(starPolygon())) }})
}
