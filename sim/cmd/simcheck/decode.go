package main

// Independent decoders for the four file formats. None of them uses sdfx or
// the libraries sdfx writes with: STL is decoded from bytes, 3MF with
// archive/zip + encoding/xml, DXF with a group-code pair parser, SVG with
// encoding/xml.

import (
	"archive/zip"
	"bufio"
	"bytes"
	"encoding/binary"
	"encoding/xml"
	"errors"
	"fmt"
	"io"
	"math"
	"os"
	"strconv"
	"strings"
)

type stlRec struct {
	N, V1, V2, V3 [3]float32
	Attr          uint16
}

type stlFile struct {
	Header [80]byte
	Count  uint32
	Recs   []stlRec
	Size   int
	Extra  int // bytes after the last complete record
}

func decodeSTLBytes(b []byte) (*stlFile, error) {
	f := &stlFile{Size: len(b)}
	if len(b) < 84 {
		return nil, fmt.Errorf("stl: %d bytes, shorter than the 84-byte header", len(b))
	}
	copy(f.Header[:], b[:80])
	f.Count = binary.LittleEndian.Uint32(b[80:84])
	body := b[84:]
	n := len(body) / 50
	f.Extra = len(body) % 50
	f.Recs = make([]stlRec, n)
	for i := 0; i < n; i++ {
		r := body[i*50 : i*50+50]
		get := func(o int) float32 { return math.Float32frombits(binary.LittleEndian.Uint32(r[o:])) }
		rec := &f.Recs[i]
		for k := 0; k < 3; k++ {
			rec.N[k] = get(4 * k)
			rec.V1[k] = get(12 + 4*k)
			rec.V2[k] = get(24 + 4*k)
			rec.V3[k] = get(36 + 4*k)
		}
		rec.Attr = binary.LittleEndian.Uint16(r[48:])
	}
	return f, nil
}

func decodeSTLFile(path string) (*stlFile, error) {
	b, err := os.ReadFile(path)
	if err != nil {
		return nil, err
	}
	return decodeSTLBytes(b)
}

// ---------------------------------------------------------------------------
// 3MF

type xmlModel struct {
	XMLName   xml.Name `xml:"model"`
	Unit      string   `xml:"unit,attr"`
	Resources struct {
		Objects []struct {
			ID   string `xml:"id,attr"`
			Type string `xml:"type,attr"`
			Mesh *struct {
				Vertices struct {
					Vertex []struct {
						X string `xml:"x,attr"`
						Y string `xml:"y,attr"`
						Z string `xml:"z,attr"`
					} `xml:"vertex"`
				} `xml:"vertices"`
				Triangles struct {
					Triangle []struct {
						V1 string `xml:"v1,attr"`
						V2 string `xml:"v2,attr"`
						V3 string `xml:"v3,attr"`
					} `xml:"triangle"`
				} `xml:"triangles"`
			} `xml:"mesh"`
		} `xml:"object"`
	} `xml:"resources"`
	Build struct {
		Items []struct {
			ObjectID string `xml:"objectid,attr"`
		} `xml:"item"`
	} `xml:"build"`
}

type mf3File struct {
	Unit       string
	Objects    int
	BuildItems int
	VertsText  [][3]string // decimal strings as written
	Verts      [][3]float64
	Tris       [][3]int
}

func decode3MFFile(path string) (*mf3File, error) {
	zr, err := zip.OpenReader(path)
	if err != nil {
		return nil, err
	}
	defer zr.Close()
	var data []byte
	for _, f := range zr.File {
		if strings.HasSuffix(strings.ToLower(f.Name), ".model") {
			rc, err := f.Open()
			if err != nil {
				return nil, err
			}
			data, err = io.ReadAll(rc)
			rc.Close()
			if err != nil {
				return nil, err
			}
			break
		}
	}
	if data == nil {
		return nil, errors.New("3mf: no .model part in the package")
	}
	var m xmlModel
	if err := xml.Unmarshal(data, &m); err != nil {
		return nil, err
	}
	out := &mf3File{Unit: m.Unit, Objects: len(m.Resources.Objects), BuildItems: len(m.Build.Items)}
	if out.Unit == "" {
		out.Unit = "millimeter" // the 3MF default when the attribute is absent
	}
	for _, o := range m.Resources.Objects {
		if o.Mesh == nil {
			continue
		}
		for _, v := range o.Mesh.Vertices.Vertex {
			x, e1 := strconv.ParseFloat(v.X, 64)
			y, e2 := strconv.ParseFloat(v.Y, 64)
			z, e3 := strconv.ParseFloat(v.Z, 64)
			if e1 != nil || e2 != nil || e3 != nil {
				return nil, fmt.Errorf("3mf: bad vertex %q %q %q", v.X, v.Y, v.Z)
			}
			out.Verts = append(out.Verts, [3]float64{x, y, z})
			out.VertsText = append(out.VertsText, [3]string{v.X, v.Y, v.Z})
		}
		for _, t := range o.Mesh.Triangles.Triangle {
			a, e1 := strconv.Atoi(t.V1)
			b, e2 := strconv.Atoi(t.V2)
			c, e3 := strconv.Atoi(t.V3)
			if e1 != nil || e2 != nil || e3 != nil {
				return nil, fmt.Errorf("3mf: bad triangle %q %q %q", t.V1, t.V2, t.V3)
			}
			out.Tris = append(out.Tris, [3]int{a, b, c})
		}
	}
	return out, nil
}

// ---------------------------------------------------------------------------
// DXF

type dxfLine struct {
	Layer          string
	X1, Y1, Z1     float64
	X2, Y2, Z2     float64
	T1, T2, T3, T4 string // coordinate text as written (x1,y1,x2,y2)
}

type dxfFile struct {
	Lines         []dxfLine
	OtherEntities []string
	Layers        []string
}

func decodeDXFFile(path string) (*dxfFile, error) {
	b, err := os.ReadFile(path)
	if err != nil {
		return nil, err
	}
	return decodeDXFBytes(b)
}

func decodeDXFBytes(b []byte) (*dxfFile, error) {
	sc := bufio.NewScanner(bytes.NewReader(b))
	sc.Buffer(make([]byte, 1<<16), 1<<24)
	type pair struct {
		code int
		val  string
	}
	var pairs []pair
	for {
		if !sc.Scan() {
			break
		}
		cs := strings.TrimSpace(sc.Text())
		if !sc.Scan() {
			return nil, errors.New("dxf: odd number of lines")
		}
		v := strings.TrimRight(sc.Text(), "\r")
		c, err := strconv.Atoi(cs)
		if err != nil {
			return nil, fmt.Errorf("dxf: bad group code %q", cs)
		}
		pairs = append(pairs, pair{c, strings.TrimSpace(v)})
	}
	out := &dxfFile{}
	section := ""
	var curLine *dxfLine
	inLayerTable := false
	flush := func() {
		if curLine != nil {
			out.Lines = append(out.Lines, *curLine)
			curLine = nil
		}
	}
	for i := 0; i < len(pairs); i++ {
		p := pairs[i]
		if p.code == 0 {
			flush()
			switch p.val {
			case "SECTION":
				if i+1 < len(pairs) && pairs[i+1].code == 2 {
					section = pairs[i+1].val
				}
			case "ENDSEC":
				section = ""
			case "LINE":
				if section == "ENTITIES" {
					curLine = &dxfLine{}
				}
			case "LAYER":
				if section == "TABLES" {
					inLayerTable = true
				}
			default:
				inLayerTable = false
				if section == "ENTITIES" && p.val != "EOF" {
					out.OtherEntities = append(out.OtherEntities, p.val)
				}
			}
			continue
		}
		if inLayerTable && section == "TABLES" && p.code == 2 {
			out.Layers = append(out.Layers, p.val)
			inLayerTable = false
		}
		if curLine != nil {
			f := func() float64 {
				v, err := strconv.ParseFloat(p.val, 64)
				if err != nil {
					return math.NaN()
				}
				return v
			}
			switch p.code {
			case 8:
				curLine.Layer = p.val
			case 10:
				curLine.X1, curLine.T1 = f(), p.val
			case 20:
				curLine.Y1, curLine.T2 = f(), p.val
			case 30:
				curLine.Z1 = f()
			case 11:
				curLine.X2, curLine.T3 = f(), p.val
			case 21:
				curLine.Y2, curLine.T4 = f(), p.val
			case 31:
				curLine.Z2 = f()
			}
		}
	}
	flush()
	return out, nil
}

// ---------------------------------------------------------------------------
// SVG

type svgLine struct{ X1, Y1, X2, Y2, Style string }

type svgFile struct {
	Width, Height string
	Lines         []svgLine
	Other         []string
}

func decodeSVGFile(path string) (*svgFile, error) {
	b, err := os.ReadFile(path)
	if err != nil {
		return nil, err
	}
	dec := xml.NewDecoder(bytes.NewReader(b))
	out := &svgFile{}
	seenSVG := false
	depth := 0
	for {
		tok, err := dec.Token()
		if err == io.EOF {
			break
		}
		if err != nil {
			return nil, err
		}
		switch t := tok.(type) {
		case xml.StartElement:
			depth++
			attr := func(n string) string {
				for _, a := range t.Attr {
					if a.Name.Local == n {
						return a.Value
					}
				}
				return ""
			}
			switch t.Name.Local {
			case "svg":
				seenSVG = true
				out.Width, out.Height = attr("width"), attr("height")
			case "line":
				out.Lines = append(out.Lines, svgLine{attr("x1"), attr("y1"), attr("x2"), attr("y2"), attr("style")})
			default:
				out.Other = append(out.Other, t.Name.Local)
			}
		case xml.EndElement:
			depth--
		}
	}
	if !seenSVG {
		return nil, errors.New("svg: no <svg> element")
	}
	if depth != 0 {
		return nil, errors.New("svg: unbalanced document")
	}
	return out, nil
}
