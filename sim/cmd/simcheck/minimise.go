package main

import (
	"encoding/json"
	"fmt"
	"strings"
	"time"
)

func cloneScenario(sc *Scenario) *Scenario {
	b, _ := json.Marshal(sc)
	var c Scenario
	json.Unmarshal(b, &c)
	return &c
}

// rebuildBatches keeps the partition style while changing the item count.
func rebuildBatches(j *Job, n int) {
	if len(j.Batches) == 0 {
		j.N = n
		return
	}
	left := n
	for p := range j.Batches {
		var runs []Run
		for _, r := range j.Batches[p] {
			if r.Size <= 0 {
				runs = append(runs, r)
				continue
			}
			cnt := r.Count
			if r.Size*cnt > left {
				cnt = left / r.Size
			}
			if cnt > 0 {
				runs = append(runs, Run{r.Size, cnt})
				left -= cnt * r.Size
			}
		}
		j.Batches[p] = runs
	}
	j.N = n
}

// candidates proposes simpler scenarios, most aggressive first.
func candidates(sc *Scenario, last *Result) []*Scenario {
	var out []*Scenario
	add := func(f func(c *Scenario) bool) {
		c := cloneScenario(sc)
		if f(c) {
			out = append(out, c)
		}
	}
	if sc.Census {
		period := censusPeriod(sc)
		if period > 0 && len(sc.Groups)%period == 0 {
			reps := len(sc.Groups) / period
			if reps > 3 {
				add(func(c *Scenario) bool { c.Groups = c.Groups[:3*period]; setPeriodNote(c, period, 3); return true })
				add(func(c *Scenario) bool {
					c.Groups = c.Groups[:(reps-1)*period]
					setPeriodNote(c, period, reps-1)
					return true
				})
			}
			if period > 1 {
				for b := 0; b < period; b++ {
					b := b
					add(func(c *Scenario) bool {
						var g [][]Job
						for i := range c.Groups {
							if i%period != b {
								g = append(g, c.Groups[i])
							}
						}
						c.Groups = g
						setPeriodNote(c, period-1, reps)
						return true
					})
				}
			}
		}
	}
	// drop history
	if len(sc.Groups) > 1 && !sc.Census {
		for gi := range sc.Groups {
			gi := gi
			add(func(c *Scenario) bool {
				c.Groups = append(c.Groups[:gi], c.Groups[gi+1:]...)
				c.Sched = fallbackSched(c.Sched)
				return true
			})
		}
	}
	for gi := range sc.Groups {
		if len(sc.Groups[gi]) > 1 {
			for ji := range sc.Groups[gi] {
				gi, ji := gi, ji
				add(func(c *Scenario) bool {
					c.Groups[gi] = append(c.Groups[gi][:ji], c.Groups[gi][ji+1:]...)
					c.Sched = fallbackSched(c.Sched)
					return true
				})
			}
		}
	}
	// simpler schedule
	if sc.Sched.Policy != "fifo" {
		add(func(c *Scenario) bool { c.Sched = Sched{Policy: "fifo"}; return true })
	}
	if sc.Sched.Policy != "fifo" && sc.Sched.Policy != "explicit" && last != nil && len(last.Choices) > 0 && len(last.Choices) <= 20000 {
		add(func(c *Scenario) bool {
			c.Sched = Sched{Policy: "explicit", Choices: append([]int(nil), last.Choices...), Lenient: true}
			return true
		})
	}
	if sc.Sched.Policy == "explicit" {
		ch := sc.Sched.Choices
		// truncate the tail, zero chunks
		for _, frac := range []int{2, 4, 8} {
			if len(ch) >= frac {
				keep := len(ch) - len(ch)/frac
				add(func(c *Scenario) bool { c.Sched.Choices = c.Sched.Choices[:keep]; return true })
			}
		}
		nz := 0
		for _, x := range ch {
			if x != 0 {
				nz++
			}
		}
		if nz > 0 {
			for _, parts := range []int{2, 4, 8, 16} {
				sz := (len(ch) + parts - 1) / parts
				if sz == 0 {
					continue
				}
				for s := 0; s < len(ch); s += sz {
					s := s
					any := false
					for i := s; i < s+sz && i < len(ch); i++ {
						if ch[i] != 0 {
							any = true
						}
					}
					if !any {
						continue
					}
					add(func(c *Scenario) bool {
						for i := s; i < s+sz && i < len(c.Sched.Choices); i++ {
							c.Sched.Choices[i] = 0
						}
						return true
					})
				}
			}
		}
	}
	// smaller jobs
	for gi := range sc.Groups {
		for ji := range sc.Groups[gi] {
			gi, ji := gi, ji
			j := &sc.Groups[gi][ji]
			if j.N > 0 && len(j.Batches) > 0 {
				for _, n := range []int{0, 1, j.N / 2, j.N - 1} {
					n := n
					if n >= j.N || n < 0 {
						continue
					}
					add(func(c *Scenario) bool {
						rebuildBatches(&c.Groups[gi][ji], n)
						c.Sched = fallbackSched(c.Sched)
						return true
					})
				}
			}
			if len(j.Batches) > 1 {
				add(func(c *Scenario) bool {
					cj := &c.Groups[gi][ji]
					cj.Batches = cj.Batches[:len(cj.Batches)-1]
					cj.N = partItems(cj.Batches)
					c.Sched = fallbackSched(c.Sched)
					return true
				})
			}
			if len(j.Batches) >= 1 {
				total := 0
				for _, r := range j.Batches[0] {
					total += r.Count
				}
				if total > 1 && len(j.Batches) == 1 {
					add(func(c *Scenario) bool {
						cj := &c.Groups[gi][ji]
						cj.Batches = [][]Run{{{cj.N, 1}}}
						c.Sched = fallbackSched(c.Sched)
						return true
					})
				}
			}
			if j.Cells > 6 {
				for _, n := range []int{6, j.Cells / 2, j.Cells - 1} {
					n := n
					if n >= j.Cells || n < 4 {
						continue
					}
					add(func(c *Scenario) bool {
						c.Groups[gi][ji].Cells = n
						c.Sched = fallbackSched(c.Sched)
						return true
					})
				}
			}
			if j.Fault.Kind == "fsize" && j.Fault.Budget > 0 {
				for _, b := range []int64{0, 84, 4096, j.Fault.Budget / 2} {
					b := b
					if b >= j.Fault.Budget {
						continue
					}
					add(func(c *Scenario) bool { c.Groups[gi][ji].Fault.Budget = b; return true })
				}
			}
			if j.Pre > 0 {
				add(func(c *Scenario) bool { c.Groups[gi][ji].Pre = 0; return true })
			}
			if len(j.CloseAt) > 0 {
				add(func(c *Scenario) bool { c.Groups[gi][ji].CloseAt = nil; return true })
			}
			if j.Warm > 0 {
				add(func(c *Scenario) bool { c.Groups[gi][ji].Warm /= 2; return true })
			}
			if j.Coords != "" && j.Coords != "index" {
				add(func(c *Scenario) bool { c.Groups[gi][ji].Coords = "index"; return true })
			}
			if len(j.Ops) > 1 {
				for oi := range j.Ops {
					oi := oi
					add(func(c *Scenario) bool {
						cj := &c.Groups[gi][ji]
						cj.Ops = append(cj.Ops[:oi], cj.Ops[oi+1:]...)
						return true
					})
				}
			}
			if j.Callers > 2 {
				add(func(c *Scenario) bool {
					c.Groups[gi][ji].Callers--
					c.Sched = fallbackSched(c.Sched)
					return true
				})
			}
			if j.Points > 2 {
				add(func(c *Scenario) bool {
					c.Groups[gi][ji].Points /= 2
					c.Sched = fallbackSched(c.Sched)
					return true
				})
			}
		}
	}
	// fewer active optional sites
	for name := range sc.Sites {
		name := name
		// sites that park library goroutines stay: removing one hands that
		// goroutine back to the Go scheduler and the replay stops being exact
		if name == "prod" || name == "close" || name == "start" || name == "caller" || name == "eval.pre" || name == "eval.post" ||
			strings.HasPrefix(name, "cons.") || name == "go.start" || name == "worker.start" || name == "mc.sent" {
			continue
		}
		add(func(c *Scenario) bool {
			delete(c.Sites, name)
			c.Sched = fallbackSched(c.Sched)
			return true
		})
	}
	if sc.Env.GOMAXPROCS != 1 {
		add(func(c *Scenario) bool { c.Env.GOMAXPROCS = 1; return true })
	}
	return out
}

func setPeriodNote(c *Scenario, period, reps int) {
	c.Note = fmt.Sprintf("period=%d reps=%d", period, reps)
}

// fallbackSched: an explicit schedule does not survive a change of the
// scenario shape; keep seeded policies, relax explicit ones to lenient.
func fallbackSched(s Sched) Sched {
	if s.Policy == "explicit" {
		s.Lenient = true
		s.Sizes = nil
	}
	return s
}

// minimise shrinks the failing scenario while the same violation class
// persists, within a wall-clock budget.
func minimise(pl *plan, v *violation, budget time.Duration) (*violation, []string, bool) {
	deadline := time.Now().Add(budget)
	cur := *v
	var log []string
	// first make sure it reproduces at all (fresh process)
	rv, herr := reproduce(pl, cur.Sc, cur.Ref)
	if herr != "" || rv == nil || rv.Class != v.Class {
		log = append(log, "original scenario did not reproduce in a fresh process: kept as found")
		return &cur, log, false
	}
	var lastRes *Result
	lastRes = lastResult(pl, cur.Sc)
	changed := false
	for rounds := 0; rounds < 40 && time.Now().Before(deadline); rounds++ {
		progress := false
		for _, cand := range candidates(cur.Sc, lastRes) {
			if time.Now().After(deadline) {
				break
			}
			if scenarioSize(cand) > scenarioSize(cur.Sc) && cand.Sched.Policy != "explicit" {
				continue
			}
			nv, herr := reproduce(pl, cand, cur.Ref)
			if herr != "" || nv == nil || nv.Class != v.Class {
				continue
			}
			if v.Race != "" && nv.Race != v.Race {
				continue
			}
			log = append(log, fmt.Sprintf("accepted: size %d -> %d (policy %s)", scenarioSize(cur.Sc), scenarioSize(cand), cand.Sched.Policy))
			nv.Ref, nv.RefDig = cur.Ref, cur.RefDig
			nv.Sc = cand
			cur = *nv
			lastRes = lastResult(pl, cur.Sc)
			progress, changed = true, true
			break
		}
		if !progress {
			break
		}
	}
	// freeze an explicit lenient schedule into an exact one
	if cur.Sc.Sched.Policy == "explicit" && lastRes != nil {
		c := cloneScenario(cur.Sc)
		c.Sched = Sched{Policy: "explicit", Choices: lastRes.Choices, Sizes: lastRes.Sizes}
		if nv, herr := reproduce(pl, c, cur.Ref); herr == "" && nv != nil && nv.Class == v.Class {
			nv.Ref, nv.RefDig, nv.Sc = cur.Ref, cur.RefDig, c
			cur = *nv
		}
	}
	// the replay must be exact: three fresh processes, same class and trace hash
	stable := func(sc *Scenario) (int, *violation) {
		n := 0
		var first *violation
		for i := 0; i < 3; i++ {
			nv, herr := reproduce(pl, sc, cur.Ref)
			if herr == "" && nv != nil && nv.Class == v.Class && (first == nil || nv.Trace == first.Trace) {
				n++
				if first == nil {
					first = nv
				}
			}
		}
		return n, first
	}
	n, _ := stable(cur.Sc)
	if n < 3 {
		// hand every library goroutine of the scenario to the simulator
		c := cloneScenario(cur.Sc)
		for _, g := range c.Groups {
			for _, j := range g {
				for _, s := range sinkSites(j.Sink) {
					c.Sites[s] = 1
				}
			}
		}
		c.Sites["go.start"] = 1
		if n2, nv := stable(c); n2 == 3 && nv != nil {
			nv.Ref, nv.RefDig, nv.Sc = cur.Ref, cur.RefDig, c
			cur = *nv
			log = append(log, fmt.Sprintf("replay was not exact (%d/3); all sink hooks switched on: 3/3", n))
		} else {
			log = append(log, fmt.Sprintf("replay reproduces %d/3 times (with all hooks on: %d/3): the failing code leaves a goroutine outside the simulator's control", n, n2))
		}
	} else {
		log = append(log, "replay verified 3/3 in fresh processes (same class, same trace hash)")
	}
	return &cur, log, changed
}

func lastResult(pl *plan, sc *Scenario) *Result {
	outs := runChild([]*Scenario{sc}, 0, episodeWallLimit())
	if len(outs) == 1 && outs[0].res != nil {
		return outs[0].res
	}
	return nil
}
