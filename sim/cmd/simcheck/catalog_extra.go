package main

// Unusual-but-legal variants of catalogue shapes: degenerate meshes, large
// member counts, trivial counts, nested wrappers. State that is only touched
// on a rare branch tends to sit behind inputs like these.

import (
	"github.com/deadsy/sdfx/obj"
	"github.com/deadsy/sdfx/sdf"
	v2 "github.com/deadsy/sdfx/vec/v2"
	"github.com/deadsy/sdfx/vec/v2i"
	v3 "github.com/deadsy/sdfx/vec/v3"
	"github.com/deadsy/sdfx/vec/v3i"
	"math"
)

// catDegenerateBoxMesh: a closed box plus collapsed triangles (two identical
// vertices) on its corners and zero-area (collinear) triangles on its edges.
func catDegenerateBoxMesh() []*sdf.Triangle3 {
	m := catBoxMesh(v3.Vec{}, v3.Vec{X: 6, Y: 4, Z: 8})
	for _, sx := range []float64{-3, 3} {
		for _, sy := range []float64{-2, 2} {
			for _, sz := range []float64{-4, 4} {
				c := v3.Vec{X: sx, Y: sy, Z: sz}
				m = append(m, &sdf.Triangle3{c, c, v3.Vec{X: sx, Y: sy, Z: 0}}) // two identical vertices
			}
		}
	}
	m = append(m, &sdf.Triangle3{{X: -3, Y: -2, Z: -4}, {X: 0, Y: -2, Z: -4}, {X: 3, Y: -2, Z: -4}}) // collinear
	m = append(m, &sdf.Triangle3{{X: 1, Y: 1, Z: 4}, {X: 1, Y: 1, Z: 4}, {X: 1, Y: 1, Z: 4}})        // a point
	return m
}

func manyCircles(n int, lw *leafWrapper) []sdf.SDF2 {
	var out []sdf.SDF2
	for i := 0; i < n; i++ {
		c := sdf.Transform2D(must2(sdf.Circle2D(0.8+0.1*float64(i%3))), sdf.Translate2d(v2.Vec{X: float64(i%4) * 3, Y: float64(i/4) * 3}))
		out = append(out, lw.w2(c))
	}
	return out
}

func manySpheres(n int, lw *leafWrapper) []sdf.SDF3 {
	var out []sdf.SDF3
	for i := 0; i < n; i++ {
		out = append(out, lw.w3(catOffsetSphere(0.9+0.1*float64(i%3), v3.Vec{X: float64(i%3) * 3, Y: float64((i/3)%3) * 3, Z: float64(i/9) * 3})))
	}
	return out
}

// wavyRing: a closed outline of n vertices (a circle of radius 10 with 17 lobes).
func wavyRing(n int) []v2.Vec {
	vs := make([]v2.Vec, n)
	for i := range vs {
		a := 2 * math.Pi * float64(i) / float64(n)
		r := 10 + 1.5*math.Sin(17*a)
		vs[i] = v2.Vec{X: r * math.Cos(a), Y: r * math.Sin(a)}
	}
	return vs
}

func init() {
	register(catEntry{Name: "x-import-tri-mesh-degenerate", Ctors: []string{"obj.ImportTriMesh"},
		Build3: func(lw *leafWrapper) sdf.SDF3 { return obj.ImportTriMesh(catDegenerateBoxMesh(), 8, 3, 5) }})
	register(catEntry{Name: "x-import-tri-mesh-degenerate-all-neighbours", Ctors: []string{"obj.ImportTriMesh"},
		Build3: func(lw *leafWrapper) sdf.SDF3 { return obj.ImportTriMesh(catDegenerateBoxMesh(), 64, 2, 4) }})
	register(catEntry{Name: "x-mesh3d-slow-degenerate", Ctors: []string{"sdf.Mesh3DSlow"},
		Build3: func(lw *leafWrapper) sdf.SDF3 { return must3(sdf.Mesh3DSlow(catDegenerateBoxMesh())) }})
	register(catEntry{Name: "x-mesh3d-degenerate", Ctors: []string{"sdf.Mesh3D"},
		Build3: func(lw *leafWrapper) sdf.SDF3 { return must3(sdf.Mesh3D(catDegenerateBoxMesh())) }})
	register(catEntry{Name: "x-union2d-12", Ctors: []string{"sdf.Union2D"},
		Build2: func(lw *leafWrapper) sdf.SDF2 { return sdf.Union2D(manyCircles(12, lw)...) }})
	register(catEntry{Name: "x-union2d-1", Ctors: []string{"sdf.Union2D"},
		Build2: func(lw *leafWrapper) sdf.SDF2 { return sdf.Union2D(manyCircles(1, lw)...) }})
	register(catEntry{Name: "x-union3d-20", Ctors: []string{"sdf.Union3D"},
		Build3: func(lw *leafWrapper) sdf.SDF3 { return sdf.Union3D(manySpheres(20, lw)...) }})
	register(catEntry{Name: "x-union3d-20-blend", Ctors: []string{"sdf.Union3D"},
		Build3: func(lw *leafWrapper) sdf.SDF3 {
			u := sdf.Union3D(manySpheres(20, lw)...)
			u.(*sdf.UnionSDF3).SetMin(sdf.PolyMin(0.5))
			return u
		}})
	register(catEntry{Name: "x-multi2d-16", Ctors: []string{"sdf.Multi2D"},
		Build2: func(lw *leafWrapper) sdf.SDF2 {
			var pos v2.VecSet
			for i := 0; i < 16; i++ {
				pos = append(pos, v2.Vec{X: float64(i%4) * 4, Y: float64(i/4) * 4})
			}
			return sdf.Multi2D(lw.w2(must2(sdf.Circle2D(1.2))), pos)
		}})
	register(catEntry{Name: "x-array3d-1x1x1", Ctors: []string{"sdf.Array3D"},
		Build3: func(lw *leafWrapper) sdf.SDF3 {
			return sdf.Array3D(lw.w3(must3(sdf.Sphere3D(2))), v3i.Vec{X: 1, Y: 1, Z: 1}, v3.Vec{X: 5, Y: 5, Z: 5})
		}})
	register(catEntry{Name: "x-rotate-union3d-36", Ctors: []string{"sdf.RotateUnion3D"},
		Build3: func(lw *leafWrapper) sdf.SDF3 {
			s := lw.w3(catOffsetSphere(0.6, v3.Vec{X: 6, Y: 0, Z: 0}))
			return sdf.RotateUnion3D(s, 36, sdf.RotateZ(sdf.DtoR(10)))
		}})
	register(catEntry{Name: "x-rotate-copy2d-24", Ctors: []string{"sdf.RotateCopy2D"},
		Build2: func(lw *leafWrapper) sdf.SDF2 {
			t := lw.w2(catOffsetBox2(v2.Vec{X: 1, Y: 0.6}, 0.1, v2.Vec{X: 6, Y: 0}))
			return sdf.RotateCopy2D(t, 24)
		}})
	register(catEntry{Name: "x-cache-of-cache", Ctors: []string{"sdf.Cache2D"},
		Build2: func(lw *leafWrapper) sdf.SDF2 { return sdf.Cache2D(sdf.Cache2D(lw.w2(starPolygon()))) }})
	register(catEntry{Name: "x-two-caches-one-profile", Ctors: []string{"sdf.Cache2D"},
		Build3: func(lw *leafWrapper) sdf.SDF3 {
			// the same profile wrapped twice: two extrusions, each with a cache of its own
			p := lw.w2(starPolygon())
			a := sdf.Extrude3D(sdf.Cache2D(p), 3)
			b := sdf.Transform3D(sdf.Extrude3D(sdf.Cache2D(p), 5), sdf.Translate3d(v3.Vec{X: 0, Y: 0, Z: 5}))
			return sdf.Union3D(a, b)
		}})
	register(catEntry{Name: "x-two-voxels-one-shape", Ctors: []string{"sdf.NewVoxelSDF3"},
		Build3: func(lw *leafWrapper) sdf.SDF3 {
			s := lw.w3(must3(sdf.Sphere3D(3)))
			a := sdf.NewVoxelSDF3(s, 6, nil)
			b := sdf.Transform3D(sdf.NewVoxelSDF3(s, 8, nil), sdf.Translate3d(v3.Vec{X: 4, Y: 0, Z: 0}))
			return sdf.Union3D(a, b)
		}})
	register(catEntry{Name: "x-voxel-2-cells", Ctors: []string{"sdf.NewVoxelSDF3"},
		Build3: func(lw *leafWrapper) sdf.SDF3 {
			return sdf.NewVoxelSDF3(lw.w3(must3(sdf.Box3D(v3.Vec{X: 4, Y: 4, Z: 4}, 0.5))), 2, nil)
		}})
	register(catEntry{Name: "x-voxel-of-voxel", Ctors: []string{"sdf.NewVoxelSDF3"},
		Build3: func(lw *leafWrapper) sdf.SDF3 {
			return sdf.NewVoxelSDF3(sdf.NewVoxelSDF3(lw.w3(must3(sdf.Sphere3D(3))), 8, nil), 6, nil)
		}})
	// polygons with thousands of segments (imported outlines, sampled curves): spatial
	// indexes behave differently at this size
	register(catEntry{Name: "x-polygon2d-3000", Ctors: []string{"sdf.Polygon2D"},
		Build2: func(lw *leafWrapper) sdf.SDF2 { return must2(sdf.Polygon2D(wavyRing(3000))) }})
	register(catEntry{Name: "x-polygon2d-6000-extrude", Ctors: []string{"sdf.Polygon2D", "sdf.Extrude3D"},
		Build3: func(lw *leafWrapper) sdf.SDF3 { return sdf.Extrude3D(lw.w2(must2(sdf.Polygon2D(wavyRing(6000)))), 4) }})
	register(catEntry{Name: "x-mesh2d-1500", Ctors: []string{"sdf.Mesh2D"},
		Build2: func(lw *leafWrapper) sdf.SDF2 {
			vs := wavyRing(1500)
			var ls []*sdf.Line2
			for i := range vs {
				ls = append(ls, &sdf.Line2{vs[i], vs[(i+1)%len(vs)]})
			}
			return must2(sdf.Mesh2D(ls))
		}})
	// densely overlapping copies: the step is a fraction of the child's bounding box, so
	// that many cells are candidates for the nearest one at every point
	register(catEntry{Name: "x-array3d-dense", Ctors: []string{"sdf.Array3D"},
		Build3: func(lw *leafWrapper) sdf.SDF3 {
			bar := sdf.Transform3D(must3(sdf.Box3D(v3.Vec{X: 4, Y: 0.5, Z: 0.5}, 0.05)), sdf.RotateZ(sdf.DtoR(45)))
			return sdf.Array3D(lw.w3(bar), v3i.Vec{X: 14, Y: 2, Z: 1}, v3.Vec{X: 0.4, Y: 1.1, Z: 1})
		}})
	register(catEntry{Name: "x-array2d-dense", Ctors: []string{"sdf.Array2D"},
		Build2: func(lw *leafWrapper) sdf.SDF2 {
			bar := sdf.Transform2D(sdf.Box2D(v2.Vec{X: 4, Y: 0.5}, 0.05), sdf.Rotate2d(sdf.DtoR(45)))
			return sdf.Array2D(lw.w2(bar), v2i.Vec{X: 14, Y: 2}, v2.Vec{X: 0.4, Y: 1.1})
		}})
	register(catEntry{Name: "x-rotate-union3d-dense", Ctors: []string{"sdf.RotateUnion3D"},
		Build3: func(lw *leafWrapper) sdf.SDF3 {
			bar := sdf.Transform3D(must3(sdf.Box3D(v3.Vec{X: 4, Y: 0.5, Z: 0.5}, 0.05)), sdf.Translate3d(v3.Vec{X: 2.5, Y: 0, Z: 0}))
			return sdf.RotateUnion3D(lw.w3(bar), 40, sdf.RotateZ(sdf.DtoR(9)))
		}})
	register(catEntry{Name: "x-multi3d-dense", Ctors: []string{"sdf.Multi3D"},
		Build3: func(lw *leafWrapper) sdf.SDF3 {
			var pos v3.VecSet
			for i := 0; i < 30; i++ {
				pos = append(pos, v3.Vec{X: float64(i%10) * 0.35, Y: float64(i/10) * 0.4, Z: 0})
			}
			return sdf.Multi3D(lw.w3(must3(sdf.Box3D(v3.Vec{X: 3, Y: 0.4, Z: 0.4}, 0.05))), pos)
		}})
	// a space-filling model (infill): the surface passes through nearly every cell of a
	// coarse grid, so tree-walking renderers cannot prune anything
	register(catEntry{Name: "x-gyroid-infill", Ctors: []string{"sdf.Gyroid3D", "sdf.Intersect3D"},
		Build3: func(lw *leafWrapper) sdf.SDF3 {
			g := lw.w3(must3(sdf.Gyroid3D(v3.Vec{X: 10, Y: 10, Z: 10})))
			b := lw.w3(must3(sdf.Box3D(v3.Vec{X: 100, Y: 100, Z: 100}, 0)))
			return sdf.Intersect3D(b, g)
		}})
	register(catEntry{Name: "x-polygon2d-collinear", Ctors: []string{"sdf.Polygon2D"},
		Build2: func(lw *leafWrapper) sdf.SDF2 {
			return must2(sdf.Polygon2D([]v2.Vec{{X: 0, Y: 0}, {X: 5, Y: 0}, {X: 10, Y: 0}, {X: 10, Y: 6}, {X: 10, Y: 6.0000001}, {X: 0, Y: 6}}))
		}})
}
