package main

import (
	"path/filepath"

	"github.com/deadsy/sdfx/obj"
	"github.com/deadsy/sdfx/sdf"
	v2 "github.com/deadsy/sdfx/vec/v2"
	"github.com/deadsy/sdfx/vec/v2i"
	v3 "github.com/deadsy/sdfx/vec/v3"
	"github.com/deadsy/sdfx/vec/v3i"
)

func catServo(name string) *obj.ServoParms {
	k, err := obj.ServoLookup(name)
	if err != nil {
		panic("servo lookup: " + err.Error())
	}
	return k
}

func catDroneArm() *obj.DroneArmParms {
	return &obj.DroneArmParms{
		MotorSize:     v2.Vec{X: 28, Y: 30},
		MotorMount:    v3.Vec{X: 16, Y: 19, Z: 3.4},
		RotorCavity:   v2.Vec{X: 9, Y: 1.5},
		WallThickness: 3.0,
		SideClearance: 1.5,
		MountHeight:   0.7,
		ArmHeight:     0.9,
		ArmLength:     70.0,
	}
}

func catGeneva() *obj.GenevaParms {
	return &obj.GenevaParms{
		NumSectors:     6,
		CenterDistance: 50.0,
		DriverRadius:   20.0,
		DrivenRadius:   40.0,
		PinRadius:      2.5,
		Clearance:      0.1,
	}
}

func catPanelBox() []sdf.SDF3 {
	k := obj.PanelBoxParms{
		Size:       v3.Vec{X: 50.0, Y: 40.0, Z: 60.0},
		Wall:       2.5,
		Panel:      3.0,
		Rounding:   5.0,
		FrontInset: 2.0,
		BackInset:  2.0,
		Hole:       3.4,
		SideTabs:   "TbtbT",
	}
	parts, err := obj.PanelBox3D(&k)
	if err != nil {
		panic("panel box: " + err.Error())
	}
	return parts
}

func init() {
	//-------------------------------------------------------------------------
	// angle, arrows

	register(catEntry{Name: "obj-angle2d", Ctors: []string{"obj.Angle2D"},
		Build2: func(lw *leafWrapper) sdf.SDF2 {
			return must2(obj.Angle2D(&obj.AngleParms{
				X:          obj.AngleLeg{Length: 25, Thickness: 3},
				Y:          obj.AngleLeg{Length: 20, Thickness: 2.5},
				RootRadius: 2,
			}))
		}})
	register(catEntry{Name: "obj-angle3d", Ctors: []string{"obj.Angle3D"},
		Build3: func(lw *leafWrapper) sdf.SDF3 {
			return must3(obj.Angle3D(&obj.AngleParms{
				X:          obj.AngleLeg{Length: 25, Thickness: 3},
				Y:          obj.AngleLeg{Length: 25, Thickness: 3},
				RootRadius: 2,
				Length:     40,
			}))
		}})
	register(catEntry{Name: "obj-arrow3d", Ctors: []string{"obj.Arrow3D"},
		Build3: func(lw *leafWrapper) sdf.SDF3 {
			return must3(obj.Arrow3D(&obj.ArrowParms{
				Axis:  [2]float64{50, 1},
				Head:  [2]float64{5, 2},
				Tail:  [2]float64{5, 2},
				Style: "cb",
			}))
		}})
	register(catEntry{Name: "obj-axes3d", Ctors: []string{"obj.Axes3D"},
		Build3: func(lw *leafWrapper) sdf.SDF3 {
			return must3(obj.Axes3D(v3.Vec{X: -10, Y: -10, Z: -10}, v3.Vec{X: 10, Y: 20, Z: 20}))
		}})
	register(catEntry{Name: "obj-directed-arrow3d", Ctors: []string{"obj.DirectedArrow3D"},
		Build3: func(lw *leafWrapper) sdf.SDF3 {
			k := obj.ArrowParms{
				Axis:  [2]float64{0, 0.5},
				Head:  [2]float64{3, 1.2},
				Tail:  [2]float64{0, 1.2},
				Style: "cb",
			}
			return must3(obj.DirectedArrow3D(&k, v3.Vec{X: 10, Y: 5, Z: 8}, v3.Vec{X: -2, Y: 1, Z: -3}))
		}})

	//-------------------------------------------------------------------------
	// nuts, bolts, heads, knurls

	register(catEntry{Name: "obj-bolt-hex", Ctors: []string{"obj.Bolt"},
		Build3: func(lw *leafWrapper) sdf.SDF3 {
			return must3(obj.Bolt(&obj.BoltParms{
				Thread:      "M8x1.25",
				Style:       "hex",
				TotalLength: 20,
				ShankLength: 5,
			}))
		}})
	register(catEntry{Name: "obj-bolt-knurl", Ctors: []string{"obj.Bolt"},
		Build3: func(lw *leafWrapper) sdf.SDF3 {
			return must3(obj.Bolt(&obj.BoltParms{
				Thread:      "unc_5/8",
				Style:       "knurl",
				Tolerance:   0.005,
				TotalLength: 2.0,
				ShankLength: 0.5,
			}))
		}})
	register(catEntry{Name: "obj-nut-hex", Ctors: []string{"obj.Nut"},
		Build3: func(lw *leafWrapper) sdf.SDF3 {
			return must3(obj.Nut(&obj.NutParms{Thread: "M8x1.25", Style: "hex", Tolerance: 0.1}))
		}})
	register(catEntry{Name: "obj-nut-knurl", Ctors: []string{"obj.Nut"},
		Build3: func(lw *leafWrapper) sdf.SDF3 {
			return must3(obj.Nut(&obj.NutParms{Thread: "unc_5/8", Style: "knurl", Tolerance: 0.005}))
		}})
	register(catEntry{Name: "obj-hex2d", Ctors: []string{"obj.Hex2D"},
		Build2: func(lw *leafWrapper) sdf.SDF2 { return must2(obj.Hex2D(6, 0.5)) }})
	register(catEntry{Name: "obj-hex3d", Ctors: []string{"obj.Hex3D"},
		Build3: func(lw *leafWrapper) sdf.SDF3 { return must3(obj.Hex3D(6, 4, 0.5)) }})
	register(catEntry{Name: "obj-hex-head3d", Ctors: []string{"obj.HexHead3D"},
		Build3: func(lw *leafWrapper) sdf.SDF3 { return must3(obj.HexHead3D(6, 4, "tb")) }})
	register(catEntry{Name: "obj-knurl3d", Ctors: []string{"obj.Knurl3D"},
		Build3: func(lw *leafWrapper) sdf.SDF3 {
			return must3(obj.Knurl3D(&obj.KnurlParms{
				Length: 10,
				Radius: 8,
				Pitch:  2,
				Height: 0.6,
				Theta:  sdf.DtoR(45),
			}))
		}})
	register(catEntry{Name: "obj-knurled-head3d", Ctors: []string{"obj.KnurledHead3D"},
		Build3: func(lw *leafWrapper) sdf.SDF3 { return must3(obj.KnurledHead3D(10, 8, 2.5)) }})
	register(catEntry{Name: "obj-chamfered-cylinder", Ctors: []string{"obj.ChamferedCylinder"},
		Build3: func(lw *leafWrapper) sdf.SDF3 {
			screw := must3(sdf.Screw3D(must2(sdf.ISOThread(5, 2, true)), 12, 0, 2, 1))
			return must3(obj.ChamferedCylinder(lw.w3(screw), 0, 0.25))
		}})
	register(catEntry{Name: "obj-washer2d", Ctors: []string{"obj.Washer2D"},
		Build2: func(lw *leafWrapper) sdf.SDF2 {
			return must2(obj.Washer2D(&obj.WasherParms{InnerRadius: 4, OuterRadius: 8}))
		}})
	register(catEntry{Name: "obj-washer3d", Ctors: []string{"obj.Washer3D"},
		Build3: func(lw *leafWrapper) sdf.SDF3 {
			return must3(obj.Washer3D(&obj.WasherParms{Thickness: 10, InnerRadius: 40, OuterRadius: 50, Remove: 0.3}))
		}})

	//-------------------------------------------------------------------------
	// holes

	register(catEntry{Name: "obj-counter-bored-hole3d", Ctors: []string{"obj.CounterBoredHole3D"},
		Build3: func(lw *leafWrapper) sdf.SDF3 { return must3(obj.CounterBoredHole3D(10, 1.5, 3, 2)) }})
	register(catEntry{Name: "obj-chamfered-hole3d", Ctors: []string{"obj.ChamferedHole3D"},
		Build3: func(lw *leafWrapper) sdf.SDF3 { return must3(obj.ChamferedHole3D(10, 1.5, 1)) }})
	register(catEntry{Name: "obj-counter-sunk-hole3d", Ctors: []string{"obj.CounterSunkHole3D"},
		Build3: func(lw *leafWrapper) sdf.SDF3 { return must3(obj.CounterSunkHole3D(10, 1.5)) }})
	register(catEntry{Name: "obj-bolt-circle2d", Ctors: []string{"obj.BoltCircle2D"},
		Build2: func(lw *leafWrapper) sdf.SDF2 { return must2(obj.BoltCircle2D(1.5, 10, 6)) }})
	register(catEntry{Name: "obj-bolt-circle3d", Ctors: []string{"obj.BoltCircle3D"},
		Build3: func(lw *leafWrapper) sdf.SDF3 { return must3(obj.BoltCircle3D(5, 1.5, 10, 6)) }})
	register(catEntry{Name: "obj-keyway2d", Ctors: []string{"obj.Keyway2D"},
		Build2: func(lw *leafWrapper) sdf.SDF2 {
			return must2(obj.Keyway2D(&obj.KeywayParameters{ShaftRadius: 0.55, KeyRadius: 0.77, KeyWidth: 0.35}))
		}})
	register(catEntry{Name: "obj-keyway3d", Ctors: []string{"obj.Keyway3D"},
		Build3: func(lw *leafWrapper) sdf.SDF3 {
			return must3(obj.Keyway3D(&obj.KeywayParameters{ShaftRadius: 0.55, KeyRadius: 0.77, KeyWidth: 0.35, ShaftLength: 2}))
		}})
	register(catEntry{Name: "obj-keyway3d-slot", Ctors: []string{"obj.Keyway3D"},
		Build3: func(lw *leafWrapper) sdf.SDF3 {
			// KeyRadius < ShaftRadius: key slot cut into the shaft
			return must3(obj.Keyway3D(&obj.KeywayParameters{ShaftRadius: 5, KeyRadius: 3.5, KeyWidth: 2, ShaftLength: 10}))
		}})
	register(catEntry{Name: "obj-finger-button2d", Ctors: []string{"obj.FingerButton2D"},
		Build2: func(lw *leafWrapper) sdf.SDF2 {
			return must2(obj.FingerButton2D(&obj.FingerButtonParms{Width: 4.0, Gap: 0.6, Length: 20.0}))
		}})

	//-------------------------------------------------------------------------
	// gears, geneva

	register(catEntry{Name: "obj-involute-gear", Ctors: []string{"obj.InvoluteGear"},
		Build2: func(lw *leafWrapper) sdf.SDF2 {
			return must2(obj.InvoluteGear(&obj.InvoluteGearParms{
				NumberTeeth:   20,
				Module:        (5.0 / 8.0) / 20.0,
				PressureAngle: sdf.DtoR(20.0),
				RingWidth:     0.05,
				Facets:        7,
			}))
		}})
	register(catEntry{Name: "obj-involute-gear-solid", Ctors: []string{"obj.InvoluteGear"},
		Build2: func(lw *leafWrapper) sdf.SDF2 {
			return must2(obj.InvoluteGear(&obj.InvoluteGearParms{
				NumberTeeth:   12,
				Module:        2,
				PressureAngle: sdf.DtoR(20.0),
				Backlash:      0.05,
				Clearance:     0.1,
				Facets:        5,
			}))
		}})
	register(catEntry{Name: "obj-geneva2d-driver", Ctors: []string{"obj.Geneva2D"},
		Build2: func(lw *leafWrapper) sdf.SDF2 {
			driver, _, err := obj.Geneva2D(catGeneva())
			return must2(driver, err)
		}})
	register(catEntry{Name: "obj-geneva2d-driven", Ctors: []string{"obj.Geneva2D"},
		Build2: func(lw *leafWrapper) sdf.SDF2 {
			_, driven, err := obj.Geneva2D(catGeneva())
			return must2(driven, err)
		}})

	//-------------------------------------------------------------------------
	// panels, boxes, standoffs

	register(catEntry{Name: "obj-panel2d", Ctors: []string{"obj.Panel2D"},
		Build2: func(lw *leafWrapper) sdf.SDF2 {
			return must2(obj.Panel2D(&obj.PanelParms{
				Size:         v2.Vec{X: 85, Y: 95},
				CornerRadius: 5.0,
				HoleDiameter: 4.0,
				HoleMargin:   [4]float64{5.0, 5.0, 5.0, 5.0},
				HolePattern:  [4]string{"x", "x", "x", "x"},
			}))
		}})
	register(catEntry{Name: "obj-panel2d-plain", Ctors: []string{"obj.Panel2D"},
		Build2: func(lw *leafWrapper) sdf.SDF2 {
			return must2(obj.Panel2D(&obj.PanelParms{Size: v2.Vec{X: 40, Y: 30}, CornerRadius: 3.0}))
		}})
	register(catEntry{Name: "obj-panel3d", Ctors: []string{"obj.Panel3D"},
		Build3: func(lw *leafWrapper) sdf.SDF3 {
			return must3(obj.Panel3D(&obj.PanelParms{
				Size:         v2.Vec{X: 60, Y: 40},
				CornerRadius: 5.0,
				HoleDiameter: 4.0,
				HoleMargin:   [4]float64{5.0, 5.0, 5.0, 5.0},
				HolePattern:  [4]string{"x.x", "x", "xx", "x"},
				Thickness:    3,
			}))
		}})
	register(catEntry{Name: "obj-eurorack-panel2d", Ctors: []string{"obj.EuroRackPanel2D"},
		Build2: func(lw *leafWrapper) sdf.SDF2 {
			return must2(obj.EuroRackPanel2D(&obj.EuroRackParms{U: 3, HP: 12, CornerRadius: 3, HoleDiameter: 3.6}))
		}})
	register(catEntry{Name: "obj-eurorack-panel3d", Ctors: []string{"obj.EuroRackPanel3D"},
		Build3: func(lw *leafWrapper) sdf.SDF3 {
			return must3(obj.EuroRackPanel3D(&obj.EuroRackParms{U: 3, HP: 12, CornerRadius: 3, HoleDiameter: 3.6, Thickness: 2.5, Ridge: true}))
		}})
	register(catEntry{Name: "obj-panel-hole3d", Ctors: []string{"obj.PanelHole3D"},
		Build3: func(lw *leafWrapper) sdf.SDF3 {
			return must3(obj.PanelHole3D(&obj.PanelHoleParms{
				Diameter:    9.4,
				Thickness:   2.5,
				Indent:      v3.Vec{X: 2, Y: 4, Z: 2},
				Offset:      11.0,
				Orientation: sdf.DtoR(30),
			}))
		}})
	register(catEntry{Name: "obj-panel-hole3d-plain", Ctors: []string{"obj.PanelHole3D"},
		Build3: func(lw *leafWrapper) sdf.SDF3 {
			return must3(obj.PanelHole3D(&obj.PanelHoleParms{Diameter: 7.0, Thickness: 2.5}))
		}})
	register(catEntry{Name: "obj-panel-box3d-union", Ctors: []string{"obj.PanelBox3D"},
		Build3: func(lw *leafWrapper) sdf.SDF3 { return sdf.Union3D(catPanelBox()...) }})
	register(catEntry{Name: "obj-panel-box3d-panel", Ctors: []string{"obj.PanelBox3D"},
		Build3: func(lw *leafWrapper) sdf.SDF3 { return catPanelBox()[0] }})
	register(catEntry{Name: "obj-panel-box3d-top", Ctors: []string{"obj.PanelBox3D"},
		Build3: func(lw *leafWrapper) sdf.SDF3 { return catPanelBox()[1] }})
	register(catEntry{Name: "obj-panel-box3d-bottom", Ctors: []string{"obj.PanelBox3D"},
		Build3: func(lw *leafWrapper) sdf.SDF3 { return catPanelBox()[2] }})
	register(catEntry{Name: "obj-standoff3d", Ctors: []string{"obj.Standoff3D"},
		Build3: func(lw *leafWrapper) sdf.SDF3 {
			return must3(obj.Standoff3D(&obj.StandoffParms{
				PillarHeight:   14,
				PillarDiameter: 4.5,
				HoleDepth:      11.0,
				HoleDiameter:   2.6,
				NumberWebs:     2,
				WebHeight:      10,
				WebDiameter:    12,
				WebWidth:       3.5,
			}))
		}})
	register(catEntry{Name: "obj-standoff3d-stub", Ctors: []string{"obj.Standoff3D"},
		Build3: func(lw *leafWrapper) sdf.SDF3 {
			return must3(obj.Standoff3D(&obj.StandoffParms{
				PillarHeight:   10,
				PillarDiameter: 6.0,
				HoleDepth:      -3.0,
				HoleDiameter:   2.4,
			}))
		}})
	register(catEntry{Name: "obj-add-tabs-screw", Ctors: []string{"obj.AddTabs"},
		Build3: func(lw *leafWrapper) sdf.SDF3 {
			box := lw.w3(must3(sdf.Box3D(v3.Vec{X: 40, Y: 40, Z: 20}, 2)))
			tab, err := obj.NewScrewTab(&obj.ScrewTab{
				Length:     7,
				Radius:     2,
				Round:      true,
				HoleUpper:  2.5,
				HoleLower:  5.6,
				HoleRadius: 1,
			})
			if err != nil {
				panic(err)
			}
			mset := []sdf.M44{
				sdf.Translate3d(v3.Vec{X: 16, Y: 16, Z: 2}),
				sdf.Translate3d(v3.Vec{X: -16, Y: -16, Z: 2}),
			}
			return obj.AddTabs(box, tab, false, mset)
		}})
	register(catEntry{Name: "obj-add-tabs-straight-upper", Ctors: []string{"obj.AddTabs"},
		Build3: func(lw *leafWrapper) sdf.SDF3 {
			box := lw.w3(must3(sdf.Box3D(v3.Vec{X: 40, Y: 40, Z: 20}, 2)))
			tab, err := obj.NewStraightTab(v3.Vec{X: 5, Y: 1.25, Z: 5}, 0.1)
			if err != nil {
				panic(err)
			}
			mset := []sdf.M44{
				sdf.Translate3d(v3.Vec{X: 0, Y: 18, Z: 2}),
				sdf.Translate3d(v3.Vec{X: 0, Y: -18, Z: 2}),
			}
			return obj.AddTabs(box, tab, true, mset)
		}})
	register(catEntry{Name: "obj-add-tabs-angle-lower", Ctors: []string{"obj.AddTabs"},
		Build3: func(lw *leafWrapper) sdf.SDF3 {
			box := lw.w3(must3(sdf.Box3D(v3.Vec{X: 40, Y: 40, Z: 20}, 2)))
			tab, err := obj.NewAngleTab(v3.Vec{X: 5, Y: 1.25, Z: 5}, 0.1)
			if err != nil {
				panic(err)
			}
			mset := []sdf.M44{
				sdf.Translate3d(v3.Vec{X: 0, Y: 18, Z: 2}),
				sdf.RotateZ(sdf.DtoR(180)).Mul(sdf.Translate3d(v3.Vec{X: 0, Y: 18, Z: 2})),
			}
			return obj.AddTabs(box, tab, false, mset)
		}})
	register(catEntry{Name: "obj-trunc-rect-pyramid3d", Ctors: []string{"obj.TruncRectPyramid3D"},
		Build3: func(lw *leafWrapper) sdf.SDF3 {
			return must3(obj.TruncRectPyramid3D(&obj.TruncRectPyramidParms{
				Size:        v3.Vec{X: 20, Y: 12, Z: 8},
				BaseAngle:   sdf.DtoR(90 - 10),
				BaseRadius:  3,
				RoundRadius: 1,
			}))
		}})

	//-------------------------------------------------------------------------
	// pipes

	register(catEntry{Name: "obj-pipe3d", Ctors: []string{"obj.Pipe3D"},
		Build3: func(lw *leafWrapper) sdf.SDF3 { return must3(obj.Pipe3D(10, 8, 30)) }})
	register(catEntry{Name: "obj-std-pipe3d", Ctors: []string{"obj.StdPipe3D"},
		Build3: func(lw *leafWrapper) sdf.SDF3 { return must3(obj.StdPipe3D("sch40:1", "mm", 40)) }})
	register(catEntry{Name: "obj-pipe-connector3d", Ctors: []string{"obj.PipeConnector3D"},
		Build3: func(lw *leafWrapper) sdf.SDF3 {
			return must3(obj.PipeConnector3D(&obj.PipeConnectorParms{
				Length:        40,
				OuterRadius:   20,
				InnerRadius:   16.7,
				RecessDepth:   20,
				RecessWidth:   3.6,
				Configuration: [6]bool{true, false, true, false, true, false},
			}))
		}})
	register(catEntry{Name: "obj-std-pipe-connector3d", Ctors: []string{"obj.StdPipeConnector3D"},
		Build3: func(lw *leafWrapper) sdf.SDF3 {
			return must3(obj.StdPipeConnector3D("sch40:1", "mm", 40, [6]bool{true, false, false, false, true, true}))
		}})

	//-------------------------------------------------------------------------
	// servos

	register(catEntry{Name: "obj-servo3d", Ctors: []string{"obj.Servo3D"},
		Build3: func(lw *leafWrapper) sdf.SDF3 { return must3(obj.Servo3D(catServo("standard"))) }})
	register(catEntry{Name: "obj-servo3d-nano", Ctors: []string{"obj.Servo3D"},
		Build3: func(lw *leafWrapper) sdf.SDF3 { return must3(obj.Servo3D(catServo("nano"))) }})
	register(catEntry{Name: "obj-servo2d", Ctors: []string{"obj.Servo2D"},
		Build2: func(lw *leafWrapper) sdf.SDF2 { return must2(obj.Servo2D(catServo("standard"), 2)) }})
	register(catEntry{Name: "obj-servo2d-default-hole", Ctors: []string{"obj.Servo2D"},
		Build2: func(lw *leafWrapper) sdf.SDF2 { return must2(obj.Servo2D(catServo("micro"), -1)) }})
	register(catEntry{Name: "obj-servo-horn", Ctors: []string{"obj.ServoHorn"},
		Build2: func(lw *leafWrapper) sdf.SDF2 {
			return must2(obj.ServoHorn(&obj.ServoHornParms{CenterRadius: 3, NumHoles: 4, CircleRadius: 7, HoleRadius: 1.9}))
		}})

	//-------------------------------------------------------------------------
	// drain cover, drone, gridfinity, springs

	register(catEntry{Name: "obj-drain-cover", Ctors: []string{"obj.DrainCover"},
		Build3: func(lw *leafWrapper) sdf.SDF3 {
			return must3(obj.DrainCover(&obj.DrainCoverParms{
				WallDiameter:   3.9 * sdf.MillimetresPerInch,
				WallHeight:     0.8 * sdf.MillimetresPerInch,
				WallThickness:  0.2 * sdf.MillimetresPerInch,
				WallDraft:      sdf.DtoR(2.0),
				OuterWidth:     0.4 * sdf.MillimetresPerInch,
				InnerWidth:     0.3 * sdf.MillimetresPerInch,
				CoverThickness: 0.2 * sdf.MillimetresPerInch,
				GrateNumber:    8,
				GrateWidth:     1.1,
				GrateDraft:     sdf.DtoR(8.0),
				CrossBarWidth:  0.8,
				CrossBarWeb:    false,
			}))
		}})
	register(catEntry{Name: "obj-drain-cover-web", Ctors: []string{"obj.DrainCover"},
		Build3: func(lw *leafWrapper) sdf.SDF3 {
			return must3(obj.DrainCover(&obj.DrainCoverParms{
				WallDiameter:   5.8 * sdf.MillimetresPerInch,
				WallHeight:     0.8 * sdf.MillimetresPerInch,
				WallThickness:  0.2 * sdf.MillimetresPerInch,
				WallDraft:      sdf.DtoR(2.0),
				OuterWidth:     0.4 * sdf.MillimetresPerInch,
				InnerWidth:     0.3 * sdf.MillimetresPerInch,
				CoverThickness: 0.3 * sdf.MillimetresPerInch,
				GrateNumber:    9,
				GrateWidth:     1.0,
				GrateDraft:     sdf.DtoR(8.0),
				CrossBarWidth:  1.8,
				CrossBarWeb:    true,
			}))
		}})
	register(catEntry{Name: "obj-drone-motor-arm", Ctors: []string{"obj.DroneMotorArm"},
		Build3: func(lw *leafWrapper) sdf.SDF3 { return must3(obj.DroneMotorArm(catDroneArm())) }})
	register(catEntry{Name: "obj-drone-motor-arm-socket", Ctors: []string{"obj.DroneMotorArmSocket"},
		Build3: func(lw *leafWrapper) sdf.SDF3 {
			return must3(obj.DroneMotorArmSocket(&obj.DroneArmSocketParms{
				Arm:       catDroneArm(),
				Size:      v3.Vec{X: 40, Y: 30, Z: 30},
				Clearance: 0.5,
				Stop:      35,
			}))
		}})
	register(catEntry{Name: "obj-gf-base", Ctors: []string{"obj.GfBase"},
		Build3: func(lw *leafWrapper) sdf.SDF3 {
			return obj.GfBase(&obj.GfBaseParms{Size: v2i.Vec{X: 2, Y: 1}, Magnet: true, Hole: true})
		}})
	register(catEntry{Name: "obj-gf-base-plain", Ctors: []string{"obj.GfBase"},
		Build3: func(lw *leafWrapper) sdf.SDF3 { return obj.GfBase(&obj.GfBaseParms{Size: v2i.Vec{X: 1, Y: 1}}) }})
	register(catEntry{Name: "obj-gf-body-empty", Ctors: []string{"obj.GfBody"},
		Build3: func(lw *leafWrapper) sdf.SDF3 {
			return obj.GfBody(&obj.GfBodyParms{Size: v3i.Vec{X: 1, Y: 1, Z: 3}, Hole: true, Empty: true})
		}})
	register(catEntry{Name: "obj-gf-body-solid", Ctors: []string{"obj.GfBody"},
		Build3: func(lw *leafWrapper) sdf.SDF3 { return obj.GfBody(&obj.GfBodyParms{Size: v3i.Vec{X: 1, Y: 2, Z: 1}}) }})
	register(catEntry{Name: "obj-spring2d", Ctors: []string{"obj.SpringParms.Spring2D"},
		Build2: func(lw *leafWrapper) sdf.SDF2 {
			k := &obj.SpringParms{Width: 30, Height: 5, WallThickness: 1, Diameter: 6, NumSections: 4, Boss: [2]float64{3, 3}}
			return must2(k.Spring2D())
		}})
	register(catEntry{Name: "obj-spring3d", Ctors: []string{"obj.SpringParms.Spring3D"},
		Build3: func(lw *leafWrapper) sdf.SDF3 {
			k := &obj.SpringParms{Width: 30, Height: 5, WallThickness: 1, Diameter: 6, NumSections: 4, Boss: [2]float64{3, 3}}
			return must3(k.Spring3D())
		}})

	//-------------------------------------------------------------------------
	// triangle meshes

	register(catEntry{Name: "obj-import-tri-mesh", Ctors: []string{"obj.ImportTriMesh"},
		Build3: func(lw *leafWrapper) sdf.SDF3 {
			return obj.ImportTriMesh(catBoxMesh(v3.Vec{X: 1, Y: 2, Z: 3}, v3.Vec{X: 6, Y: 4, Z: 8}), 8, 3, 5)
		}})
	register(catEntry{Name: "obj-import-tri-mesh-tetra", Ctors: []string{"obj.ImportTriMesh"},
		Build3: func(lw *leafWrapper) sdf.SDF3 { return obj.ImportTriMesh(catTetraMesh(), 4, 3, 5) }})
	// monkey.stl is small (~370 triangles): one Evaluate measures ~9us, so not Heavy.
	register(catEntry{Name: "obj-import-stl", Ctors: []string{"obj.ImportSTL"},
		Build3: func(lw *leafWrapper) sdf.SDF3 {
			return must3(obj.ImportSTL(filepath.Join(repoDir(), "files", "monkey.stl"), 8, 3, 5))
		}})
	register(catEntry{Name: "obj-import-stl-voxel", Ctors: []string{"obj.ImportSTL", "sdf.NewVoxelSDF3"},
		Build3: func(lw *leafWrapper) sdf.SDF3 {
			s := must3(obj.ImportSTL(filepath.Join(repoDir(), "files", "monkey.stl"), 8, 3, 5))
			return sdf.NewVoxelSDF3(lw.w3(s), 8, nil)
		}})
}
