package main

// Model catalogue for render episodes. Construction happens in a fixed order
// at a fixed point of the episode (sdfRand is process-global).

import (
	"fmt"
	"math"
	"strings"

	"github.com/deadsy/sdfx/sdf"
	v2 "github.com/deadsy/sdfx/vec/v2"
	"github.com/deadsy/sdfx/vec/v2i"
	v3 "github.com/deadsy/sdfx/vec/v3"
	"github.com/deadsy/sdfx/vec/v3i"
)

func must3(s sdf.SDF3, err error) sdf.SDF3 {
	if err != nil {
		panic(fmt.Sprintf("model construction: %v", err))
	}
	return s
}

func must2(s sdf.SDF2, err error) sdf.SDF2 {
	if err != nil {
		panic(fmt.Sprintf("model construction: %v", err))
	}
	return s
}

// The Bezier sampler draws from the process-global sdfRand, so the polygon of
// the n-th curve built in a process depends on how many were built before.
// The property speaks of "a given model": the profile is built once, first
// thing in the process, and shared.
var sharedBezier sdf.SDF2

func bezierProfile() sdf.SDF2 {
	if sharedBezier == nil {
		sharedBezier = buildBezierProfile()
	}
	return sharedBezier
}

func buildBezierProfile() sdf.SDF2 {
	b := sdf.NewBezier()
	b.Add(0, 0)
	b.Add(10, 0).HandleFwd(sdf.DtoR(45), 4)
	b.Add(12, 8).Handle(sdf.DtoR(90), 3, 3)
	b.Add(4, 11).Mid()
	b.Add(0, 8).HandleRev(sdf.DtoR(0), 3)
	b.Close()
	return must2(b.Mesh2D())
}

func starPolygon() sdf.SDF2 {
	p := sdf.NewPolygon()
	p.Add(0, 0)
	p.Add(10, 0).Smooth(1, 3)
	p.Add(10, 4)
	p.Add(4, 4).Smooth(0.8, 3)
	p.Add(4, 10)
	p.Add(0, 10)
	return must2(sdf.Polygon2D(p.Vertices()))
}

// leafWrap optionally wraps a leaf with a yielding wrapper.
type leafWrapper struct {
	on bool
	n  uint64
}

func (lw *leafWrapper) w3(s sdf.SDF3) sdf.SDF3 {
	if !lw.on {
		return s
	}
	lw.n++
	return &leaf3{inner: s, id: lw.n}
}

func (lw *leafWrapper) w2(s sdf.SDF2) sdf.SDF2 {
	if !lw.on {
		return s
	}
	lw.n++
	return &leaf2{inner: s, id: lw.n}
}

var model3Names = []string{"sphere-box", "csg", "extrude-poly", "screw", "extrude-bezier", "cache-extrude", "revolve", "array", "extrude-union2d", "multi-intersect", "cache-extrude-rot", "cube"}

// models that also exist in a second state reached through a setter
var model3Variants = []string{"sphere-box+blend", "extrude-poly+twist"}
var model2Names = []string{"poly", "bezier", "circle-box", "gear-ish", "cache-poly"}

// applyVariant puts a (possibly shared) model object into the state its name
// asks for, through the library's own setters: "sphere-box+blend" is the
// sphere-box union with a smooth minimum, "extrude-poly+twist" the extrusion
// with a twist. The plain name resets the object.
func applyVariant(base string, variant string, s sdf.SDF3) {
	switch base {
	case "sphere-box":
		if u, ok := s.(*sdf.UnionSDF3); ok {
			if variant == "blend" {
				u.SetMin(sdf.PolyMin(1.5))
			} else {
				u.SetMin(math.Min)
			}
		}
	case "extrude-poly":
		if e, ok := s.(*sdf.ExtrudeSDF3); ok {
			if variant == "twist" {
				e.SetExtrude(sdf.TwistExtrude(6, sdf.DtoR(50)))
			} else {
				e.SetExtrude(sdf.NormalExtrude)
			}
		}
	}
}

func splitVariant(name string) (base, variant string) {
	if i := strings.IndexByte(name, '+'); i >= 0 {
		return name[:i], name[i+1:]
	}
	return name, ""
}

// placement variants, written name@far / @huge / @tiny: the model moved 1e7 units
// away, scaled by 1e6, scaled by 1e-6 (a renderer must cope with any of them)
func splitPlacement(name string) (base, place string) {
	if i := strings.IndexByte(name, '@'); i >= 0 {
		return name[:i], name[i+1:]
	}
	return name, ""
}

func buildModel3(name string, lw *leafWrapper) sdf.SDF3 {
	if base, place := splitPlacement(name); place != "" {
		s := buildModel3(base, lw)
		switch place {
		case "far":
			return sdf.Transform3D(s, sdf.Translate3d(v3.Vec{X: 1e7, Y: -3e7, Z: 2e6}))
		case "huge":
			return sdf.ScaleUniform3D(s, 1e6)
		case "tiny":
			return sdf.ScaleUniform3D(s, 1e-6)
		}
		panic("unknown placement " + place)
	}
	if base, variant := splitVariant(name); variant != "" {
		s := buildModel3(base, lw)
		applyVariant(base, variant, s)
		return s
	}
	switch name {
	case "sphere-box":
		a := lw.w3(must3(sdf.Sphere3D(5)))
		b := lw.w3(sdf.Transform3D(must3(sdf.Box3D(v3.Vec{X: 6, Y: 6, Z: 6}, 0.5)), sdf.Translate3d(v3.Vec{X: 4, Y: 1, Z: 2})))
		return sdf.Union3D(a, b)
	case "csg":
		a := lw.w3(must3(sdf.Box3D(v3.Vec{X: 10, Y: 8, Z: 6}, 1)))
		b := lw.w3(must3(sdf.Cylinder3D(12, 2, 0)))
		c := lw.w3(sdf.Transform3D(must3(sdf.Sphere3D(3)), sdf.Translate3d(v3.Vec{X: 4, Y: 3, Z: 2})))
		d := sdf.Difference3D(sdf.Union3D(a, c), b)
		return sdf.Transform3D(d, sdf.RotateX(sdf.DtoR(20)).Mul(sdf.RotateZ(sdf.DtoR(35))))
	case "extrude-poly":
		return sdf.Extrude3D(lw.w2(starPolygon()), 6)
	case "screw":
		t := must2(sdf.ISOThread(5, 2, true))
		return must3(sdf.Screw3D(lw.w2(t), 8, 0, 2, 1))
	case "extrude-bezier":
		return sdf.TwistExtrude3D(lw.w2(bezierProfile()), 8, sdf.DtoR(40))
	case "cache-extrude":
		return sdf.Extrude3D(sdf.Cache2D(lw.w2(starPolygon())), 6)
	case "revolve":
		p := sdf.Transform2D(lw.w2(sdf.Box2D(v2.Vec{X: 3, Y: 6}, 0.5)), sdf.Translate2d(v2.Vec{X: 5, Y: 0}))
		return must3(sdf.RevolveTheta3D(p, sdf.DtoR(270)))
	case "extrude-union2d":
		// A union whose box-distance pruning matters: next to the big circle's
		// bounding-box corner the nearest box is the big circle's but the nearest
		// surface is the medium circle's, and the two boxes are disjoint. Tall
		// enough that a layer of the uniform renderer is several batches.
		circle := func(r, x, y float64) sdf.SDF2 {
			return sdf.Transform2D(must2(sdf.Circle2D(r)), sdf.Translate2d(v2.Vec{X: x, Y: y}))
		}
		// (the gap between the two boxes is about one cell at 18 cells, so a lattice
		// point in the gap is a corner of a cell that the medium circle's surface crosses)
		big := lw.w2(circle(3, 0, 0))
		near := lw.w2(circle(0.25, 5, -3.2))
		far := lw.w2(circle(1, 3.2, -5))
		tiny := lw.w2(circle(0.2, 0, -6.2))
		return sdf.Extrude3D(sdf.Union2D(big, near, far, tiny), 18)
	case "cube":
		return lw.w3(must3(sdf.Box3D(v3.Vec{X: 10, Y: 10, Z: 10}, 0)))
	case "cache-extrude-rot":
		// a cached profile, extruded and turned by a quarter: after the rotation the
		// 2D points the cache sees for one (x,z) column differ only in their last bits
		e := sdf.Extrude3D(sdf.Cache2D(lw.w2(starPolygon())), 8)
		return sdf.Transform3D(e, sdf.RotateX(sdf.DtoR(90)).Mul(sdf.Translate3d(v3.Vec{X: 0.3, Y: 0.1, Z: 0})))
	case "multi-intersect":
		s := lw.w3(must3(sdf.Box3D(v3.Vec{X: 3, Y: 3, Z: 3}, 0.4)))
		u := sdf.Multi3D(s, v3.VecSet{{X: 0, Y: 0, Z: 0}, {X: 4, Y: 1, Z: 0}, {X: 1, Y: 4, Z: 1}})
		return sdf.Intersect3D(u, lw.w3(must3(sdf.Sphere3D(5))))
	case "array":
		s := lw.w3(must3(sdf.Sphere3D(2)))
		return sdf.Array3D(s, v3i.Vec{X: 2, Y: 2, Z: 1}, v3.Vec{X: 5, Y: 5, Z: 0})
	}
	panic("unknown 3d model " + name)
}

func buildModel2(name string, lw *leafWrapper) sdf.SDF2 {
	if base, place := splitPlacement(name); place != "" {
		s := buildModel2(base, lw)
		switch place {
		case "far":
			return sdf.Transform2D(s, sdf.Translate2d(v2.Vec{X: 1e7, Y: -3e7}))
		case "huge":
			return sdf.ScaleUniform2D(s, 1e6)
		case "tiny":
			return sdf.ScaleUniform2D(s, 1e-6)
		}
		panic("unknown placement " + place)
	}
	switch name {
	case "poly":
		return lw.w2(starPolygon())
	case "bezier":
		return lw.w2(bezierProfile())
	case "circle-box":
		a := lw.w2(must2(sdf.Circle2D(4)))
		b := lw.w2(sdf.Transform2D(sdf.Box2D(v2.Vec{X: 5, Y: 5}, 0.5), sdf.Translate2d(v2.Vec{X: 3, Y: 2})))
		return sdf.Difference2D(sdf.Union2D(a, b), lw.w2(must2(sdf.Circle2D(1.5))))
	case "gear-ish":
		t := lw.w2(sdf.Transform2D(sdf.Box2D(v2.Vec{X: 2, Y: 1}, 0.2), sdf.Translate2d(v2.Vec{X: 5, Y: 0})))
		return sdf.Union2D(must2(sdf.Circle2D(5)), sdf.RotateCopy2D(t, 9))
	case "cache-poly":
		return sdf.Cache2D(lw.w2(starPolygon()))
	case "washer": // an annulus: the outline passes through nearly every square of a coarse grid
		return sdf.Difference2D(lw.w2(must2(sdf.Circle2D(10))), lw.w2(must2(sdf.Circle2D(6.5))))
	case "grid2d": // a lattice of holes in a plate: no square of a coarse grid is empty
		plate := lw.w2(sdf.Box2D(v2.Vec{X: 20, Y: 20}, 1))
		hole := lw.w2(must2(sdf.Circle2D(1.6)))
		return sdf.Difference2D(plate, sdf.Transform2D(sdf.Array2D(hole, v2i.Vec{X: 4, Y: 4}, v2.Vec{X: 5, Y: 5}), sdf.Translate2d(v2.Vec{X: -7.5, Y: -7.5})))
	}
	panic("unknown 2d model " + name)
}
