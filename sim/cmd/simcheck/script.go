package main

import (
	"math"
	"sync"
	"sync/atomic"
	"time"

	"github.com/deadsy/sdfx/sdf"
	v2 "github.com/deadsy/sdfx/vec/v2"
	v3 "github.com/deadsy/sdfx/vec/v3"
	"verif/sim/simcore"
)

// ---------------------------------------------------------------------------
// scripted renderers: emit a known numbered sequence from 1..P producers

// poison items: what a producer that reuses its batch slice leaves in it after Write returned
var poisonTri = &sdf.Triangle3{{X: -777, Y: 777, Z: -777}, {X: 777, Y: -777, Z: 777}, {X: -777, Y: -777, Z: 777}}
var poisonLine = &sdf.Line2{{X: -777, Y: 777}, {X: 777, Y: -777}}

type script3 struct {
	reuse      bool          // every batch is written from one scratch slice that is overwritten after Write returns
	closeTwice bool          // Close is called twice at the end
	stall      time.Duration // real-time pause after the first batch
	closeAt    map[int]bool  // single producer: call Close() before writing batch i
	pre        func()        // runs first thing in Render (fault injection)
	jid        uint32
	batches    [][][]*sdf.Triangle3 // per producer
}

func (r *script3) Info(s sdf.SDF3) string { return "scripted" }

// write hands one batch to the writer, from a reused scratch slice if asked to.
func (r *script3) write(out sdf.Triangle3Writer, b []*sdf.Triangle3, scratch *[]*sdf.Triangle3) {
	if !r.reuse || b == nil {
		out.Write(b)
		return
	}
	*scratch = append((*scratch)[:0], b...)
	out.Write(*scratch)
	for i := range *scratch {
		(*scratch)[i] = poisonTri
	}
}

func (r *script3) Render(s sdf.SDF3, out sdf.Triangle3Writer) {
	if r.pre != nil {
		r.pre()
	}
	if len(r.batches) <= 1 {
		if len(r.batches) == 1 {
			var scratch []*sdf.Triangle3
			for bi, b := range r.batches[0] {
				simcore.Yield(simcore.Label{Site: SProd, Job: r.jid, A: 0, B: uint64(bi)})
				if r.closeAt[bi] {
					out.Close() // a renderer may flush in the middle of its output
				}
				r.write(out, b, &scratch)
				if bi == 0 && r.stall > 0 {
					time.Sleep(r.stall)
				}
			}
		}
	} else {
		var wg sync.WaitGroup
		for p := range r.batches {
			wg.Add(1)
			go func(p int) {
				defer wg.Done()
				simcore.SetCtx(simcore.Ctx{Job: r.jid, Sub: uint64(p)})
				var scratch []*sdf.Triangle3
				for bi, b := range r.batches[p] {
					simcore.Yield(simcore.Label{Site: SProd, Job: r.jid, A: uint64(p), B: uint64(bi)})
					r.write(out, b, &scratch)
				}
			}(p)
		}
		wg.Wait()
	}
	simcore.Yield(simcore.Label{Site: SClose, Job: r.jid})
	out.Close()
	if r.closeTwice {
		out.Close() // harmless by the writers' contract: nothing is pending
	}
}

type script2 struct {
	reuse      bool
	closeTwice bool
	stall      time.Duration
	closeAt    map[int]bool
	pre        func()
	jid        uint32
	batches    [][][]*sdf.Line2
}

func (r *script2) Info(s sdf.SDF2) string { return "scripted" }

func (r *script2) write(out sdf.Line2Writer, b []*sdf.Line2, scratch *[]*sdf.Line2) {
	if !r.reuse || b == nil {
		out.Write(b)
		return
	}
	*scratch = append((*scratch)[:0], b...)
	out.Write(*scratch)
	for i := range *scratch {
		(*scratch)[i] = poisonLine
	}
}

func (r *script2) Render(s sdf.SDF2, out sdf.Line2Writer) {
	if r.pre != nil {
		r.pre()
	}
	if len(r.batches) <= 1 {
		if len(r.batches) == 1 {
			var scratch []*sdf.Line2
			for bi, b := range r.batches[0] {
				simcore.Yield(simcore.Label{Site: SProd, Job: r.jid, A: 0, B: uint64(bi)})
				if r.closeAt[bi] {
					out.Close()
				}
				r.write(out, b, &scratch)
				if bi == 0 && r.stall > 0 {
					time.Sleep(r.stall)
				}
			}
		}
	} else {
		var wg sync.WaitGroup
		for p := range r.batches {
			wg.Add(1)
			go func(p int) {
				defer wg.Done()
				simcore.SetCtx(simcore.Ctx{Job: r.jid, Sub: uint64(p)})
				var scratch []*sdf.Line2
				for bi, b := range r.batches[p] {
					simcore.Yield(simcore.Label{Site: SProd, Job: r.jid, A: uint64(p), B: uint64(bi)})
					r.write(out, b, &scratch)
				}
			}(p)
		}
		wg.Wait()
	}
	simcore.Yield(simcore.Label{Site: SClose, Job: r.jid})
	out.Close()
	if r.closeTwice {
		out.Close() // harmless by the writers' contract: nothing is pending
	}
}

// ---------------------------------------------------------------------------
// adapters around real renderers: park on a seeded subset of Write calls

type tapWriter3 struct {
	inner sdf.Triangle3Writer
	jid   uint32
	n     uint64
	seen  *[]*sdf.Triangle3 // everything the renderer wrote, in order
}

func (w *tapWriter3) Write(in []*sdf.Triangle3) error {
	simcore.Bump()
	if len(in) > 0 {
		simcore.Yield(simcore.Label{Site: SWrite, Job: w.jid, A: w.n})
		w.n++
		*w.seen = append(*w.seen, in...)
	}
	return w.inner.Write(in)
}

func (w *tapWriter3) Close() error {
	simcore.Yield(simcore.Label{Site: SClose, Job: w.jid})
	return w.inner.Close()
}

type render3er interface {
	Render(s sdf.SDF3, output sdf.Triangle3Writer)
	Info(s sdf.SDF3) string
}

type tap3 struct {
	pre   func()
	inner render3er
	jid   uint32
	seen  []*sdf.Triangle3
}

func (a *tap3) Info(s sdf.SDF3) string { return a.inner.Info(s) }
func (a *tap3) Render(s sdf.SDF3, out sdf.Triangle3Writer) {
	if a.pre != nil {
		a.pre()
	}
	a.inner.Render(s, &tapWriter3{inner: out, jid: a.jid, seen: &a.seen})
}

type tapWriter2 struct {
	inner sdf.Line2Writer
	jid   uint32
	n     uint64
	seen  *[]*sdf.Line2
}

func (w *tapWriter2) Write(in []*sdf.Line2) error {
	simcore.Bump()
	if len(in) > 0 {
		simcore.Yield(simcore.Label{Site: SWrite, Job: w.jid, A: w.n})
		w.n++
		*w.seen = append(*w.seen, in...)
	}
	return w.inner.Write(in)
}

func (w *tapWriter2) Close() error {
	simcore.Yield(simcore.Label{Site: SClose, Job: w.jid})
	return w.inner.Close()
}

type render2er interface {
	Render(s sdf.SDF2, output sdf.Line2Writer)
	Info(s sdf.SDF2) string
}

type tap2 struct {
	pre   func()
	inner render2er
	jid   uint32
	seen  []*sdf.Line2
}

func (a *tap2) Info(s sdf.SDF2) string { return a.inner.Info(s) }
func (a *tap2) Render(s sdf.SDF2, out sdf.Line2Writer) {
	if a.pre != nil {
		a.pre()
	}
	a.inner.Render(s, &tapWriter2{inner: out, jid: a.jid, seen: &a.seen})
}

// ---------------------------------------------------------------------------
// pass-through shape wrappers: park the calling goroutine before and after
// the real Evaluate ("how long an evaluation takes" is the simulator's call)

func hash3(p v3.Vec) uint64 {
	h := simcore.Mix(math.Float64bits(p.X) + 0x9e3779b97f4a7c15)
	h = simcore.Mix(h ^ math.Float64bits(p.Y))
	h = simcore.Mix(h ^ math.Float64bits(p.Z) ^ 0x5bf03635)
	return h
}

func hash2(p v2.Vec) uint64 {
	h := simcore.Mix(math.Float64bits(p.X) + 0x2545f4914f6cdd1d)
	h = simcore.Mix(h ^ math.Float64bits(p.Y))
	return h
}

type ySDF3 struct {
	inner  sdf.SDF3
	jid    uint32
	setCtx bool // leaves are wrapped: publish the current point as context
	slow   *slowEval
}

// slowEval: one evaluation of a render takes long in real time (the value it
// returns is unchanged).
type slowEval struct {
	at    int64
	d     time.Duration
	count atomic.Int64
}

func (s *slowEval) tick() {
	if s != nil && s.count.Add(1) == s.at {
		time.Sleep(s.d)
	}
}

func (w *ySDF3) BoundingBox() sdf.Box3 { return w.inner.BoundingBox() }
func (w *ySDF3) Evaluate(p v3.Vec) float64 {
	h := hash3(p)
	var old simcore.Ctx
	if w.setCtx {
		old = simcore.SetCtx(simcore.Ctx{Job: w.jid, Sub: h})
	}
	simcore.Bump()
	simcore.Yield(simcore.Label{Site: SEvalPre, Job: w.jid, A: h})
	w.slow.tick()
	d := w.inner.Evaluate(p)
	simcore.Yield(simcore.Label{Site: SEvalPost, Job: w.jid, A: h})
	if w.setCtx {
		simcore.RestoreCtx(old)
	}
	return d
}

type ySDF2 struct {
	inner  sdf.SDF2
	jid    uint32
	setCtx bool
	slow   *slowEval
}

func (w *ySDF2) BoundingBox() sdf.Box2 { return w.inner.BoundingBox() }
func (w *ySDF2) Evaluate(p v2.Vec) float64 {
	h := hash2(p)
	var old simcore.Ctx
	if w.setCtx {
		old = simcore.SetCtx(simcore.Ctx{Job: w.jid, Sub: h})
	}
	simcore.Bump()
	simcore.Yield(simcore.Label{Site: SEvalPre, Job: w.jid, A: h})
	w.slow.tick()
	d := w.inner.Evaluate(p)
	simcore.Yield(simcore.Label{Site: SEvalPost, Job: w.jid, A: h})
	if w.setCtx {
		simcore.RestoreCtx(old)
	}
	return d
}

// leaf wrappers: labelled by the context of the calling goroutine (the outer
// point being evaluated, or the caller index) plus leaf id and point.
type leaf3 struct {
	inner sdf.SDF3
	id    uint64
}

func (w *leaf3) BoundingBox() sdf.Box3 { return w.inner.BoundingBox() }
func (w *leaf3) Evaluate(p v3.Vec) float64 {
	k := simcore.Mix(hash3(p) ^ w.id*0x9e3779b97f4a7c15)
	simcore.YieldCtx(SLeafPre, k)
	d := w.inner.Evaluate(p)
	simcore.YieldCtx(SLeafPost, k)
	return d
}

type leaf2 struct {
	inner sdf.SDF2
	id    uint64
}

func (w *leaf2) BoundingBox() sdf.Box2 { return w.inner.BoundingBox() }
func (w *leaf2) Evaluate(p v2.Vec) float64 {
	k := simcore.Mix(hash2(p) ^ w.id*0x9e3779b97f4a7c15)
	simcore.YieldCtx(SLeafPre, k)
	d := w.inner.Evaluate(p)
	simcore.YieldCtx(SLeafPost, k)
	return d
}
