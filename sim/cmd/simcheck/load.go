package main

// C14: the STL loader over the storage-fault closure of valid files.

import (
	"bytes"
	"encoding/binary"
	"fmt"
	"os"
	"path/filepath"
	"runtime"
	"strconv"
	"strings"
	"syscall"
	"time"

	"github.com/deadsy/sdfx/obj"
	"github.com/deadsy/sdfx/render"
	"github.com/deadsy/sdfx/sdf"
	"verif/sim/simcore"
)

func repoDir() string {
	if d := os.Getenv("VERIF_REPO"); d != "" {
		return d
	}
	return "/repo"
}

var baseCache = map[string][]byte{}

// baseFile builds the fault-free file a case starts from.
//
//	bin:N:seed     SaveSTL of N seeded triangles
//	stream:N:seed  ToSTL of the same (streaming writer)
//	ascii:N:seed   harness-written well-formed ASCII STL
//	crash:N:seed:k on-disk image of the streaming writer after its k-th 4096-byte flush
//	               (count field still 0); k = -1: all records flushed, header not yet rewritten
//	shipped:name   /repo/files/name
func (ep *episode) baseFile(spec string) ([]byte, error) {
	if b, ok := baseCache[spec]; ok {
		return b, nil
	}
	parts := strings.Split(spec, ":")
	num := func(i int) int {
		if i >= len(parts) {
			return 0
		}
		v, _ := strconv.ParseInt(parts[i], 10, 64)
		return int(v)
	}
	var out []byte
	switch parts[0] {
	case "bin", "stream", "crash":
		n := num(1)
		seed, _ := strconv.ParseUint(parts[2], 10, 64)
		tris := genTriangles(n, "wild-medium", seed)
		p := filepath.Join(ep.dir, "base.stl")
		if parts[0] == "bin" {
			if err := render.SaveSTL(p, tris); err != nil {
				return nil, err
			}
		} else {
			r := &script3{jid: 1, batches: [][][]*sdf.Triangle3{{tris}}}
			render.ToSTL(must3(sdf.Sphere3D(1)), p, r)
		}
		b, err := os.ReadFile(p)
		if err != nil {
			return nil, err
		}
		if parts[0] == "crash" {
			k := num(3)
			img := append([]byte(nil), b...)
			binary.LittleEndian.PutUint32(img[80:84], 0) // header not yet rewritten
			if k >= 0 {
				cut := 4096 * k
				if cut < len(img) {
					img = img[:cut]
				}
			}
			b = img
		}
		out = b
	case "ascii", "asciie":
		n := num(1)
		seed, _ := strconv.ParseUint(parts[2], 10, 64)
		tris := genTriangles(n, "wild-small", seed)
		var buf bytes.Buffer
		g := func(v float64) string { return strconv.FormatFloat(v, 'g', -1, 64) }
		if parts[0] == "asciie" { // exporter style: short mantissas, explicit exponents
			g = func(v float64) string { return strconv.FormatFloat(v, 'e', 5+int(seed%4), 64) }
		}
		buf.WriteString("solid verif\n")
		for _, t := range tris {
			nn := t.Normal()
			fmt.Fprintf(&buf, " facet normal %s %s %s\n  outer loop\n", g(nn.X), g(nn.Y), g(nn.Z))
			for k := 0; k < 3; k++ {
				fmt.Fprintf(&buf, "   vertex %s %s %s\n", g(t[k].X), g(t[k].Y), g(t[k].Z))
			}
			buf.WriteString("  endloop\n endfacet\n")
		}
		buf.WriteString("endsolid verif\n")
		out = buf.Bytes()
	case "lines": // N lines that are not vertex lines: style 0 empty, 1 CRLF only, 2 a junk word, 3 a keyword line
		line := []string{"\n", "\r\n", "xyzzy\n", "  endloop\n"}[((num(2)%4)+4)%4]
		out = bytes.Repeat([]byte(line), num(1))
	case "rand": // arbitrary bytes
		r := simcore.NewRNG(uint64(num(2)))
		out = make([]byte, num(1))
		for i := range out {
			out[i] = byte(r.Uint64())
		}
	case "badverts": // N vertex lines, each with a number that does not parse, between intact facets
		r := simcore.NewRNG(uint64(num(2)))
		var buf bytes.Buffer
		buf.WriteString("solid damaged\n")
		for i := 0; i < num(1); i++ {
			buf.WriteString(" facet normal 0 0 1\n  outer loop\n")
			for k := 0; k < 3; k++ {
				fmt.Fprintf(&buf, "   vertex %d.5 %s %d\n", i, pickBadNumber(r.Intn(100)), k)
			}
			buf.WriteString("  endloop\n endfacet\n")
		}
		buf.WriteString("endsolid damaged\n")
		out = buf.Bytes()
	case "tokens": // random sequence of STL keywords and numbers, one to five tokens per line
		r := simcore.NewRNG(uint64(num(2)))
		vocab := []string{"solid", "facet", "normal", "outer", "loop", "vertex", "vertex", "vertex", "endloop", "endfacet", "endsolid", "1", "-2.5", "3e4", "0", "1e-3", "abc", "+7", ".5", "vertex1"}
		var buf bytes.Buffer
		for i := 0; i < num(1); i++ {
			k := 1 + r.Intn(5)
			for j := 0; j < k; j++ {
				if j > 0 {
					buf.WriteByte(' ')
				}
				buf.WriteString(vocab[r.Intn(len(vocab))])
			}
			buf.WriteByte('\n')
		}
		out = buf.Bytes()
	case "shipped":
		b, err := os.ReadFile(filepath.Join(repoDir(), "files", parts[1]))
		if err != nil {
			return nil, err
		}
		out = b
	default:
		return nil, fmt.Errorf("unknown base %q", spec)
	}
	baseCache[spec] = out
	return out, nil
}

// applyOp applies one storage-fault operator.
func applyOp(b []byte, op string) ([]byte, bool) {
	parts := strings.Split(op, ":")
	num := func(i int) int {
		if i >= len(parts) {
			return 0
		}
		v, _ := strconv.ParseInt(parts[i], 10, 64)
		return int(v)
	}
	const sector = 512
	b = append([]byte(nil), b...)
	sec := func(i int) (int, int, bool) {
		lo := i * sector
		if lo >= len(b) || i < 0 {
			return 0, 0, false
		}
		hi := lo + sector
		if hi > len(b) {
			hi = len(b)
		}
		return lo, hi, true
	}
	switch parts[0] {
	case "trunc":
		n := num(1)
		if n > len(b) {
			return b, false
		}
		return b[:n], true
	case "zero-sector": // lost write
		lo, hi, ok := sec(num(1))
		if !ok {
			return b, false
		}
		for i := lo; i < hi; i++ {
			b[i] = 0
		}
		return b, true
	case "dup-sector": // misdirected write: sector i lands on j as well
		lo, hi, ok := sec(num(1))
		lo2, hi2, ok2 := sec(num(2))
		if !ok || !ok2 {
			return b, false
		}
		n := min(hi-lo, hi2-lo2)
		copy(b[lo2:lo2+n], b[lo:lo+n])
		return b, true
	case "swap-sector": // reordered writes
		lo, hi, ok := sec(num(1))
		lo2, hi2, ok2 := sec(num(2))
		if !ok || !ok2 || lo == lo2 {
			return b, false
		}
		n := min(hi-lo, hi2-lo2)
		tmp := append([]byte(nil), b[lo:lo+n]...)
		copy(b[lo:lo+n], b[lo2:lo2+n])
		copy(b[lo2:lo2+n], tmp)
		return b, true
	case "rand-sector": // torn write
		lo, hi, ok := sec(num(1))
		if !ok {
			return b, false
		}
		r := simcore.NewRNG(uint64(num(2)))
		for i := lo; i < hi; i++ {
			b[i] = byte(r.Uint64())
		}
		return b, true
	case "flip": // bit rot
		bit := num(1)
		if bit/8 >= len(b) || bit < 0 {
			return b, false
		}
		b[bit/8] ^= 1 << (bit % 8)
		return b, true
	case "set-f32": // a stored float replaced by a special bit pattern (bit rot that lands on NaN/Inf)
		off := num(1)
		if off < 0 || off+4 > len(b) {
			return b, false
		}
		bits, _ := strconv.ParseUint(parts[2], 16, 32)
		binary.LittleEndian.PutUint32(b[off:], uint32(bits))
		return b, true
	case "set-count":
		if len(b) < 84 {
			return b, false
		}
		binary.LittleEndian.PutUint32(b[80:84], uint32(num(1)))
		return b, true
	case "append-zero":
		return append(b, make([]byte, num(1))...), true
	case "append-rand":
		r := simcore.NewRNG(uint64(num(2)))
		ex := make([]byte, num(1))
		for i := range ex {
			ex[i] = byte(r.Uint64())
		}
		return append(b, ex...), true
	case "append-self":
		return append(b, b...), true
	case "extend-to-match": // pad so that 84+50*count equals the size again
		if len(b) < 84 {
			return b, false
		}
		want := 84 + 50*int64(binary.LittleEndian.Uint32(b[80:84]))
		if want <= int64(len(b)) || want > 6<<20 {
			return b, false
		}
		return append(b, make([]byte, want-int64(len(b)))...), true
	case "decimal-comma": // written by a program in a locale with decimal commas
		return bytes.ReplaceAll(b, []byte("."), []byte(",")), bytes.Contains(b, []byte("."))
	case "bad-every": // every k-th line that ends in a number gets a malformed one
		k := num(1)
		if k < 1 {
			k = 1
		}
		lines := bytes.SplitAfter(b, []byte("\n"))
		cnt, hit := 0, false
		for i := range lines {
			f := bytes.Fields(lines[i])
			if len(f) == 4 && string(f[0]) == "vertex" {
				cnt++
				if cnt%k == 0 {
					f[len(f)-1] = []byte(pickBadNumber(num(2) + cnt))
					lines[i] = append(bytes.Join(f, []byte(" ")), '\n')
					hit = true
				}
			}
		}
		return bytes.Join(lines, nil), hit
	case "pad-first-line": // shifts every later byte: sweeps the alignment of the content against I/O buffer boundaries
		k := num(1)
		i := bytes.IndexByte(b, '\n')
		if i < 0 {
			return b, false
		}
		out := append([]byte(nil), b[:i]...)
		out = append(out, bytes.Repeat([]byte(" "), k)...)
		return append(out, b[i:]...), true
	case "crlf":
		return bytes.ReplaceAll(b, []byte("\n"), []byte("\r\n")), true
	case "long-line": // a line longer than any line buffer (70000 characters, no newline inside) before line i
		lines := bytes.SplitAfter(b, []byte("\n"))
		i := num(1)
		if i < 0 || i > len(lines) {
			return b, false
		}
		long := append(bytes.Repeat([]byte("x"), 70000), '\n')
		if num(2) == 1 {
			long = append([]byte("vertex 1 2 "), long...) // a vertex line whose last number is endless
		}
		var out []byte
		for k, ln := range lines {
			if k == i {
				out = append(out, long...)
			}
			out = append(out, ln...)
		}
		if i == len(lines) {
			out = append(out, long...)
		}
		return out, true
	case "empty-facet": // facet i keeps its normal, loop and endfacet lines but lists no vertex
		lines := bytes.SplitAfter(b, []byte("\n"))
		var out []byte
		facet, hit := -1, false
		for _, ln := range lines {
			t := bytes.TrimSpace(ln)
			if bytes.HasPrefix(t, []byte("facet")) {
				facet++
			}
			if facet == num(1) && bytes.HasPrefix(t, []byte("vertex")) {
				hit = true
				continue
			}
			out = append(out, ln...)
		}
		return out, hit
	case "drop-line", "dup-line", "cut-line", "stray-token", "bad-number", "junk-prefix", "recode-line":
		lines := bytes.SplitAfter(b, []byte("\n"))
		i := num(1)
		if i < 0 || i >= len(lines) {
			return b, false
		}
		switch parts[0] {
		case "drop-line":
			lines = append(lines[:i], lines[i+1:]...)
		case "dup-line":
			lines = append(lines[:i+1], append([][]byte{lines[i]}, lines[i+1:]...)...)
		case "cut-line": // half-written line
			c := num(2)
			if c >= len(lines[i]) {
				return b, false
			}
			lines[i] = append(append([]byte(nil), lines[i][:c]...), '\n')
		case "junk-prefix": // n bytes of another encoding (Latin-1, Shift-JIS, UTF-16 debris) in front of the line's text
			n, style := num(2), num(3)
			junk := make([]byte, 0, n)
			r := simcore.NewRNG(uint64(n)*31 + uint64(style))
			for len(junk) < n {
				switch style {
				case 0:
					junk = append(junk, byte(0x80+r.Intn(0x80))) // high bytes: invalid UTF-8
				case 1:
					junk = append(junk, "\u023a\u023e\u0130"[2*(len(junk)%3):2*(len(junk)%3)+2]...) // runes whose case mapping changes their length
				case 2:
					junk = append(junk, 0xff, 0xfe)[:min(n, len(junk)+2)]
				default:
					junk = append(junk, byte(1+r.Intn(255)))
					if junk[len(junk)-1] == '\n' {
						junk[len(junk)-1] = 0xe4
					}
				}
			}
			l := bytes.TrimLeft(lines[i], " \t")
			lines[i] = append(junk[:min(n, len(junk))], l...)
		case "recode-line": // the line's letters in upper case / title case (exporters differ)
			if num(2) == 0 {
				lines[i] = bytes.ToUpper(lines[i])
			} else {
				lines[i] = bytes.Title(lines[i])
			}
		case "stray-token":
			tok := "xyzzy"
			if len(parts) > 2 {
				tok = parts[2]
			}
			l := bytes.TrimRight(lines[i], "\r\n")
			lines[i] = append(append(append([]byte(nil), l...), []byte(" "+tok)...), '\n')
		case "bad-number":
			f := bytes.Fields(lines[i])
			if len(f) < 2 {
				return b, false
			}
			f[len(f)-1] = []byte(pickBadNumber(num(2)))
			lines[i] = append(bytes.Join(f, []byte(" ")), '\n')
		}
		return bytes.Join(lines, nil), true
	}
	return b, false
}

func pickBadNumber(i int) string {
	bads := []string{"1.2.3", "--5", "1e", "0x1p-2", "nan", "inf", "1e999", "", "1,5", "٣", "1e-999", "+", "1_000"}
	return bads[((i%len(bads))+len(bads))%len(bads)]
}

type loadOutcome struct {
	err     error
	n       int
	panicV  any
	stack   string
	alloc   uint64
	elapsed time.Duration
	hang    bool
}

func guardedLoad(entry, path string) loadOutcome {
	done := make(chan loadOutcome, 1)
	go func() {
		var o loadOutcome
		defer func() {
			if r := recover(); r != nil {
				buf := make([]byte, 8192)
				n := runtime.Stack(buf, false)
				o.panicV, o.stack = r, string(buf[:n])
			}
			done <- o
		}()
		var m0, m1 runtime.MemStats
		runtime.ReadMemStats(&m0)
		t0 := time.Now()
		switch entry {
		case "ImportSTL":
			s, err := obj.ImportSTL(path, 8, 3, 5)
			o.err = err
			if s != nil {
				o.n = 1
			}
		default:
			mesh, err := render.LoadSTL(path)
			o.err, o.n = err, len(mesh)
		}
		o.elapsed = time.Since(t0)
		runtime.ReadMemStats(&m1)
		o.alloc = m1.TotalAlloc - m0.TotalAlloc
		if m1.StackInuse > m0.StackInuse {
			o.alloc += m1.StackInuse - m0.StackInuse // a stack that grew with the input is memory too
		}
	}()
	select {
	case o := <-done:
		return o
	case <-time.After(20 * time.Second):
		return loadOutcome{hang: true}
	}
}

// runLoad executes a load-family scenario: one job = one case.
func (ep *episode) runLoad() *Result {
	res := ep.res
	res.Sim = "sequential"
	// an allocation driven by a corrupt count field must fail fast instead of
	// committing tens of GiB: cap the address space of this (non-race) child
	var as syscall.Rlimit
	if err := syscall.Getrlimit(syscall.RLIMIT_AS, &as); err == nil && !simcore.RaceEnabled {
		as.Cur = 6 << 30
		syscall.Setrlimit(syscall.RLIMIT_AS, &as)
	}
	for gi := range ep.sc.Groups {
		for ji := range ep.sc.Groups[gi] {
			j := &ep.sc.Groups[gi][ji]
			jr := JobResult{ID: j.ID, Sig: j.Base}
			b, err := ep.baseFile(j.Base)
			if err != nil {
				res.Verdict, res.Class, res.Msg = "harness-error", "base", err.Error()
				return res
			}
			applied := 0
			for _, op := range j.Ops {
				nb, ok := applyOp(b, op)
				if ok {
					applied++
					ep.faults[strings.SplitN(op, ":", 2)[0]]++
				}
				b = nb
			}
			p := filepath.Join(ep.dir, fmt.Sprintf("case%d.stl", j.ID))
			if err := os.WriteFile(p, b, 0o644); err != nil {
				res.Verdict, res.Class, res.Msg = "harness-error", "write", err.Error()
				return res
			}
			// what the path is, as a storage-side variation: a symlink to the file, a
			// directory, a character device, a name with odd characters
			for _, op := range j.Ops {
				switch op {
				case "as-symlink":
					lp := p + ".lnk"
					os.Symlink(p, lp)
					p = lp
					applied++
				case "as-directory":
					os.Remove(p)
					os.Mkdir(p, 0o755)
					applied++
				case "as-devnull":
					p = "/dev/null"
					applied++
				case "as-devzero":
					p = "/dev/zero"
					applied++
				case "as-missing":
					os.Remove(p)
					applied++
				case "odd-name":
					np := filepath.Join(ep.dir, fmt.Sprintf("c%d 100%%d%%s ünï .STL.bak", j.ID))
					os.Rename(p, np)
					p = np
					applied++
				}
			}
			entry := j.Model
			// "fds-left:<k>": the process has only k free file descriptors when the load starts
			release := func() {}
			for _, op := range j.Ops {
				if strings.HasPrefix(op, "fds-left:") {
					k, _ := strconv.Atoi(strings.TrimPrefix(op, "fds-left:"))
					release = exhaustDescriptors(k)
					applied++
					ep.faults["fds-left"]++
				}
			}
			o := guardedLoad(entry, p)
			release()
			if !strings.HasPrefix(p, "/dev/") {
				os.RemoveAll(p)
			}
			jr.Returned = !o.hang
			jr.Items = o.n
			jr.FaultFired = applied > 0
			c := okCheck
			limit := uint64(1<<20) + 64*uint64(len(b))
			switch {
			case o.hang:
				c = bad("hang", "%s did not return within 20 s on a %d-byte file", entry, len(b))
			case o.panicV != nil:
				c = bad("panic", "%s panicked on a %d-byte file: %v\n%s", entry, len(b), o.panicV, firstLines(trimStack(o.stack), 12))
			case o.alloc > limit:
				c = bad("alloc", "%s allocated %d bytes for a %d-byte file (limit 1 MiB + 64 x size = %d)", entry, o.alloc, len(b), limit)
			}
			if o.err != nil {
				ep.probes["returned-error"]++
			} else if !o.hang && o.panicV == nil {
				ep.probes["returned-mesh"]++
				if applied == 0 {
					ep.probes["fault-free-base-loaded"]++
				}
			}
			jr.AtEnd = &c
			res.Jobs = append(res.Jobs, jr)
			if !c.OK {
				res.Verdict, res.Class = "violation", c.Class
				res.Msg = fmt.Sprintf("case %s %v via %s: %s", j.Base, j.Ops, entry, c.Msg)
				return res
			}
		}
	}
	return res
}

func trimStack(s string) string {
	// keep the frames from the first sdfx function on
	i := strings.Index(s, "github.com/deadsy/sdfx/")
	if i < 0 {
		return s
	}
	return s[i:]
}

// exhaustDescriptors lowers the descriptor limit, opens /dev/null until open fails and
// gives k descriptors back; the returned function undoes all of it.
func exhaustDescriptors(k int) func() {
	var lim syscall.Rlimit
	syscall.Getrlimit(syscall.RLIMIT_NOFILE, &lim)
	low := lim
	low.Cur = 96
	syscall.Setrlimit(syscall.RLIMIT_NOFILE, &low)
	var hogs []*os.File
	for {
		f, err := os.Open("/dev/null")
		if err != nil {
			break
		}
		hogs = append(hogs, f)
	}
	for i := 0; i < k && len(hogs) > 0; i++ {
		hogs[len(hogs)-1].Close()
		hogs = hogs[:len(hogs)-1]
	}
	return func() {
		for _, f := range hogs {
			f.Close()
		}
		syscall.Setrlimit(syscall.RLIMIT_NOFILE, &lim)
	}
}
