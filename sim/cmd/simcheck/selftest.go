package main

import (
	"fmt"
	"os"
	"runtime"
	"strconv"
	"sync"

	"verif/sim/simcore"
)

// cmdSelftest: the large determinism test of the simulator. For every
// property plan it takes the first n scenarios of a spread, runs each of them
// reps times under GOMAXPROCS 1, 4 and 16 in separate processes, and compares
// step counts, trace hashes, verdicts and output digests.
func cmdSelftest(args []string) int {
	n, reps := 40, 3
	if len(args) > 0 {
		if v, err := strconv.Atoi(args[0]); err == nil {
			n = v
		}
	}
	if len(args) > 1 {
		if v, err := strconv.Atoi(args[1]); err == nil {
			reps = v
		}
	}
	work, _ := os.MkdirTemp("", "simcheck-selftest-")
	defer os.RemoveAll(work)
	os.Setenv("VERIF_WORK", work)
	seed := envSeed()
	props := []string{"C09", "C10", "C11", "C12", "C13", "C15"}
	type task struct {
		prop string
		sc   *Scenario
		gmp  int
		rep  int
		key  string
	}
	var tasks []task
	for _, p := range props {
		pl, err := buildPlan(p, "quick", seed)
		if err != nil {
			continue
		}
		var cands []*Scenario
		for _, sc := range pl.scenarios {
			// (scenarios with real-time faults, pipes or thinned-out hooks are not expected to
			// repeat exactly: see realTime; neither are multi-producer jobs whose producers
			// run many batches between two hooks)
			if sc.Family != "load" && sc.Note != "canonical" && !realTime(sc) && !sparseProducers(sc) {
				cands = append(cands, sc)
			}
		}
		step := max(1, len(cands)/n)
		cnt := 0
		for i := 0; i < len(cands) && cnt < n; i += step {
			cnt++
			for _, g := range []int{1, 4, 16} {
				for r := 0; r < reps; r++ {
					c := cloneScenario(cands[i])
					c.Env.GOMAXPROCS = g
					tasks = append(tasks, task{p, c, g, r, fmt.Sprintf("%s/%d", p, cands[i].Seed)})
				}
			}
		}
	}
	type outcome struct {
		desc string
	}
	results := map[string]map[string]int{}
	var mu sync.Mutex
	var wg sync.WaitGroup
	ch := make(chan task)
	for w := 0; w < runtime.NumCPU(); w++ {
		wg.Add(1)
		go func(slot int) {
			defer wg.Done()
			for t := range ch {
				outs := runChild([]*Scenario{t.sc}, slot, episodeWallLimit())
				desc := "no-result"
				if len(outs) == 1 && outs[0].res != nil {
					r := outs[0].res
					desc = fmt.Sprintf("%s/%s steps=%d trace=%s", r.Verdict, r.Class, r.Steps, r.TraceHash)
					for _, j := range r.Jobs {
						desc += " d=" + j.Digest
					}
					desc += fmt.Sprintf(" races=%d", len(outs[0].races))
				} else if len(outs) == 1 && outs[0].crashed {
					desc = "crashed"
				}
				mu.Lock()
				if results[t.key] == nil {
					results[t.key] = map[string]int{}
				}
				results[t.key][desc]++
				mu.Unlock()
			}
		}(w)
	}
	for _, t := range tasks {
		ch <- t
	}
	close(ch)
	wg.Wait()
	bad := 0
	for k, m := range results {
		if len(m) != 1 {
			bad++
			fmt.Printf("NONDETERMINISTIC %s:\n", k)
			for d, c := range m {
				fmt.Printf("   %dx %s\n", c, d)
			}
		}
	}
	fmt.Printf("selftest: %d scenarios x %d runs each (GOMAXPROCS 1/4/16 x %d repetitions), %d with diverging executions\n", len(results), 3*reps, reps, bad)
	if bad > 0 {
		return 2
	}
	return 0
}

var _ = simcore.Mix

func sparseProducers(sc *Scenario) bool {
	return sc.Sites["prod"] > 1 || sc.Sites["write"] > 1
}
