package main

import (
	"verif/sim/simcore"
)

// C13 and C15: write->read histories across the storage boundary. The writer
// is the pipeline simulation of C11 (seeded batch partitions and schedules);
// the coordinate dimension is ordinary seeded generation.

func contentPlan(prop string, tier string, root *simcore.RNG, sinks []string, nq, nt int) *plan {
	pl := &plan{prop: prop, level: "exploration", batch: 16}
	if tier == "replay" {
		return pl
	}
	n := nq
	if tier == "thorough" {
		n = nt
	}
	for i := 0; i < n; i++ {
		r := root.Fork()
		sink := pick(r, sinks)
		kind := "script3"
		if sink == "dxf" || sink == "svg" {
			kind = "script2"
		}
		cnt := 0
		switch r.Intn(8) {
		case 0:
			cnt = r.Intn(4)
		case 1, 2, 3:
			cnt = r.Intn(60)
		case 4, 5:
			cnt = pick(r, interestingCounts)
		default:
			cnt = r.Intn(2001)
		}
		coords := pick(r, []string{"wild", "wild", "wild-medium", "wild-small", "index"})
		j := Job{ID: 1, Kind: kind, Sink: sink, N: cnt, Coords: coords, CoordSeed: r.Uint64(),
			Batches: genPartition(r, cnt, 1, pick(r, []string{"small", "mixed", "one", "fives", "single"}))}
		if countBatches(j.Batches) > 1200 {
			j.Batches = genPartition(r, cnt, 1, "mixed")
		}
		if r.Intn(3) == 0 {
			j.Pre = pick(r, []int{1, 83, 84, 134, 5000, 40000, 300000})
		}
		j.Name = pick(r, fileNames)
		// a renderer may call Close in the middle of its output (a flush per part)
		if nb := countBatches(j.Batches); nb > 2 && r.Intn(4) == 0 {
			for k := 0; k < 1+r.Intn(3); k++ {
				j.CloseAt = append(j.CloseAt, 1+r.Intn(nb-1))
			}
		}
		j.Reuse = r.Intn(4) == 0
		j.CloseTwice = r.Intn(5) == 0
		sc := &Scenario{Prop: prop, Family: "content", Seed: r.Uint64(), Env: genEnv(r), Groups: [][]Job{{j}},
			Sites: activeSites(r, sink, false), Sched: genSched(r, []string{"consumer", "renderer"})}
		// two exports into the same format at the same time (separate files)
		if r.Intn(6) == 0 {
			n2 := pick(r, []int{1, 40, 300, 900})
			j2 := Job{ID: 9, Kind: kind, Sink: sink, N: n2, Coords: pick(r, []string{"wild-small", "index"}), CoordSeed: r.Uint64(),
				Batches: genPartition(r, n2, 1, pick(r, []string{"small", "fives"}))}
			sc.Groups[0] = append(sc.Groups[0], j2)
			for _, s2 := range sinkSites(sink) {
				sc.Sites[s2] = 1
			}
			if r.Intn(2) == 0 {
				sc.Env.Race = true
			}
		}
		// a history of exports in one process: the job is preceded or followed by
		// other exports into the same format (other sizes, the empty list among them)
		if r.Intn(3) == 0 {
			extra := 1 + r.Intn(2)
			for k := 0; k < extra; k++ {
				n2 := pick(r, []int{0, 0, 1, 2, 7, 40, 300})
				j2 := Job{ID: 2 + k, Kind: kind, Sink: sink, N: n2, Coords: pick(r, []string{"wild", "wild-small", "index"}), CoordSeed: r.Uint64(),
					Batches: genPartition(r, n2, 1, pick(r, []string{"small", "one", "mixed"}))}
				if r.Intn(2) == 0 {
					sc.Groups = append(sc.Groups, []Job{j2})
				} else {
					sc.Groups = append([][]Job{{j2}}, sc.Groups...)
				}
			}
			for _, s2 := range sinkSites(sink) {
				sc.Sites[s2] = 1
			}
		}
		if r.Intn(8) == 1 {
			sc.GCStormMs = 2 + r.Intn(8)
		}
		if r.Intn(8) == 0 {
			sc.ConsStallMs, sc.ConsStallEvery = 3+r.Intn(4), pick(r, []int{1, 2, 4})
			// the producer keeps running while the consumer is slow
			sc.Sites["prod"], sc.Sites["write"] = 64, 64
		}
		pl.scenarios = append(pl.scenarios, sc)
	}
	pl.scenarios = append(pl.scenarios, triggerSweep(root, prop, "content", sinks, tier)...)
	// large outputs: round counts (and their neighbours) up to 2^16, thorough 2^17 / 2^20 for STL
	{
		big := []int{1023, 1024, 1025, 2048, 3000, 4096, 8192, 10000, 65535, 65536, 65537}
		reps := 1
		if tier == "thorough" {
			reps = 3
			big = append(big, 131072, 131073, 100000)
		}
		for _, sink := range sinks {
			for _, cnt := range big {
				for k := 0; k < reps; k++ {
					r := root.Fork()
					if cnt > 60000 && k > 0 {
						continue
					}
					if cnt > 70000 && sink != "stl" {
						continue // the text formats take minutes at this size on the -race build
					}
					kind := "script3"
					if sink == "dxf" || sink == "svg" {
						kind = "script2"
					}
					j := Job{ID: 1, Kind: kind, Sink: sink, N: cnt, Coords: pick(r, []string{"wild-medium", "wild-small", "index"}), CoordSeed: r.Uint64(),
						Batches: genPartition(r, cnt, 1, pick(r, []string{"chunks", "chunks", "one", "fives"}))}
					sc := &Scenario{Prop: prop, Family: "content", Seed: r.Uint64(), Env: genEnv(r), Groups: [][]Job{{j}},
						Sites: activeSites(r, sink, false), Sched: genSched(r, []string{"consumer", "renderer"}), Note: "large", StepCap: 4000000}
					delete(sc.Sites, "auto")
					if r.Intn(3) == 0 {
						sc.GCStormMs = 3 + r.Intn(10)
					}
					// pipelines inside a writer only show with many blocks in flight: half of
					// these on the -race build, the largest ones on both builds
					if r.Intn(2) == 0 {
						sc.Env.Race = true
					}
					if cnt > 60000 && sink != "stl" {
						sc.Env.Race = false
					}
					if cnt > 60000 && sink == "stl" {
						if len(j.Batches[0]) == 1 && j.Batches[0][0].Count == 1 {
							sc.Groups[0][0].Batches = genPartition(r, cnt, 1, "chunks")
						}
						twin := *sc
						twin.Seed = r.Uint64()
						twin.Env.Race = !sc.Env.Race
						pl.scenarios = append(pl.scenarios, &twin)
					}
					pl.scenarios = append(pl.scenarios, sc)
				}
			}
		}
		if tier == "thorough" && len(sinks) == 1 && sinks[0] == "stl" {
			r := root.Fork()
			cnt := 1<<20 + 1
			j := Job{ID: 1, Kind: "script3", Sink: "stl", N: cnt, Coords: "index", CoordSeed: r.Uint64(), Batches: genPartition(r, cnt, 1, "chunks")}
			pl.scenarios = append(pl.scenarios, &Scenario{Prop: prop, Family: "content", Seed: r.Uint64(), Env: genEnv(r), Groups: [][]Job{{j}},
				Sites: map[string]uint32{"prod": 1, "close": 1}, Sched: Sched{Policy: "fifo"}, Note: "large", StepCap: 8000000})
		}
	}
	// slow renderers in real time (the library has no clock seam): the stream pauses
	// after its first batch. Quick: one 11 s pause; thorough: several, up to 65 s.
	stalls := []int{11000}
	if tier == "thorough" {
		stalls = []int{11000, 11000, 31000, 65000}
	}
	for _, ms := range stalls {
		r := root.Fork()
		sink := pick(r, sinks)
		kind := "script3"
		if sink == "dxf" || sink == "svg" {
			kind = "script2"
		}
		cnt := 700 + r.Intn(600)
		j := Job{ID: 1, Kind: kind, Sink: sink, N: cnt, Coords: "wild-small", CoordSeed: r.Uint64(), StallMs: ms,
			Batches: [][]Run{{{300, 1}, {5, (cnt - 300) / 5}}}}
		pl.scenarios = append(pl.scenarios, &Scenario{Prop: prop, Family: "content", Seed: r.Uint64(), Env: genEnv(r), Groups: [][]Job{{j}},
			// (hooks on the producer's side only: the writer goroutine must be running, not
			// parked, while the producer pauses - half of the episodes)
			Sites: func() map[string]uint32 {
				if ms == stalls[0] && r.Intn(2) == 0 && len(stalls) > 1 {
					return activeSites(r, sink, true)
				}
				return map[string]uint32{"prod": 1, "close": 1}
			}(), Sched: Sched{Policy: "fifo"}, Note: "real-time-stall"})
	}
	pl.nontriv = func(o *runOut) (bool, string) {
		if o.res == nil {
			return false, ""
		}
		nz := false
		for _, g := range o.sc.Groups {
			for _, j := range g {
				nz = nz || j.N > 0
			}
		}
		return nz, o.res.TraceHash + "/" + o.sc.Groups[0][0].Coords
	}
	pl.real = []string{"render.ToSTL/To3MF/ToDXF/ToSVG streaming writers and their goroutines", "render.SaveSTL/SaveDXF/SaveSVG batch writers", "render.LoadSTL", "file system"}
	pl.stubs = []string{"scripted producer (harness)", "goroutine scheduling choice (simulator)"}
	return pl
}

func planC13(tier string, root *simcore.RNG) *plan {
	pl := contentPlan("C13", tier, root, []string{"stl"}, 320, 30000)
	pl.rule = "episode = a seeded triangle list (0..2000 triangles; coordinates: small integers, ordinary model range, values that need rounding to float32, float32-subnormal and tiny, huge up to near MaxFloat32, decimal halfway cases, shared vertices, duplicate and degenerate triangles) written (i) through ToSTL by a scripted renderer under a seeded batch partition and producer/consumer schedule and (ii) through SaveSTL (incl. slow consumers and an 11 s renderer pause in real time, trigger sweeps over the instrumented code locations, round counts up to 2^16 + 1 on both builds); oracle: (i) and (ii) byte-identical; independent decoder finds 80-byte header, count = N, size 84+50N, per record the float32 rounding of the inputs in order and winding, zero attribute bytes, right-hand-rule unit normal (well-conditioned triangles only); LoadSTL of both files returns exactly those float32 values in order - compared after other files have been loaded, and again from a second load after the first result was edited in place; a well-formed ASCII STL of the same list (shortest round-trip decimal text) loads to exactly the float64 values it lists. Non-trivial = N > 0; distinct = (trace hash, coordinate class)."
	pl.assume = []string{"the schedule/batching dimension is what simulation adds; the coordinate dimension is seeded input generation", "normals are compared only for triangles whose edges are resolvable at the magnitude of their vertices (relative sine > 1e-3)"}
	return pl
}

func planC15(tier string, root *simcore.RNG) *plan {
	pl := contentPlan("C15", tier, root, []string{"3mf", "dxf", "svg", "3mf"}, 320, 30000)
	pl.rule = "episode = a seeded triangle / segment list (empty, duplicates, shared vertices, negative, tiny, large, decimal halfway cases) written through To3MF/ToDXF/ToSVG by a scripted renderer under a seeded batch partition and schedule, through SaveDXF/SaveSVG, and step by step through the drawing objects (NewDXF/Line/Lines/Points/Save, NewSVG/Line/Save; Save repeated; caller storage overwritten after each call) (incl. slow consumers and an 11 s renderer pause in real time, trigger sweeps over the instrumented code locations, round counts up to 2^16 + 1 on both builds); files are decoded by the harness's own readers (zip+xml, DXF group codes, xml). Reference model from the property statement: 3MF one millimetre object, one build item, triangles in input order and winding whose resolved vertices equal the inputs rounded to float32 then to 4 decimals, vertex table de-duplicated (no more entries than distinct float32 inputs, none unreferenced); DXF one LINE per segment on layer Lines, z=0, coordinates parsing back to exactly the inputs, input order, no other entities; SVG one <line> per segment at (x-minX, maxY-y) to 2 decimals, canvas = extent to 2 decimals. Non-trivial = N > 0; distinct = (trace hash, coordinate class)."
	pl.assume = []string{"the schedule/batching dimension is what simulation adds; the coordinate dimension is seeded input generation"}
	return pl
}
