package main

// Item generation for scripted renderers and the per-sink reference models.
// The reference models are written from the property statements (C11, C13,
// C15), not from the implementation.

import (
	"fmt"
	"math"
	"sort"
	"strconv"

	"github.com/deadsy/sdfx/sdf"
	v2 "github.com/deadsy/sdfx/vec/v2"
	v3 "github.com/deadsy/sdfx/vec/v3"
	"verif/sim/simcore"
)

const idGrid = 2048 // ids are encoded in coordinates < 2048 so that they survive every format

func indexTriangle(i int) *sdf.Triangle3 {
	x := float64(i % idGrid)
	y := float64((i / idGrid) % idGrid)
	z := float64(i / (idGrid * idGrid))
	return &sdf.Triangle3{{X: x, Y: y, Z: z}, {X: x + 0.25, Y: y, Z: z}, {X: x, Y: y + 0.25, Z: z}}
}

func indexLine(i int) *sdf.Line2 {
	x := float64(i % idGrid)
	y := float64(i / idGrid)
	return &sdf.Line2{{X: x, Y: y}, {X: x + 0.25, Y: y + 0.5}}
}

// wild coordinates: the float32 range including negatives, tiny, huge,
// values that round differently in float32, shared and repeated vertices.
func wildFloat(r *simcore.RNG, class int) float64 {
	switch class {
	case 0: // small integers
		return float64(r.Intn(41) - 20)
	case 1: // ordinary model coordinates
		return (r.Float64() - 0.5) * 400
	case 2: // need rounding to float32
		return (r.Float64()-0.5)*2000 + r.Float64()*1e-7
	case 3: // tiny, incl. float32 subnormals
		return (r.Float64() - 0.5) * math.Pow(10, -float64(30+r.Intn(16)))
	case 4: // huge but inside float32
		return (r.Float64() - 0.5) * math.Pow(10, float64(20+r.Intn(18)))
	case 5: // near float32 max
		return math.Copysign(math.MaxFloat32*(1-r.Float64()*1e-3), r.Float64()-0.5)
	case 6: // halfway cases for 2 and 4 decimals
		return float64(r.Intn(2000)-1000)/8 + float64(r.Intn(3)-1)*0.00005
	case 8: // decimal lattice: k/1000 and k/200 (x.xx5), inexact in binary
		if r.Intn(2) == 0 {
			return float64(r.Intn(40001)-20000) / 1000
		}
		return float64(r.Intn(8001)-4000) / 200
	case 10: // round-off residues as CAD exporters write them: few digits, exponent -8..-24
		m := float64(1+r.Intn(99999999)) / math.Pow(10, float64(r.Intn(8)))
		return math.Copysign(m*math.Pow(10, -float64(8+r.Intn(17))), r.Float64()-0.5)
	case 11: // exact binary ties at the fourth (odd/32) and second (odd/8) decimal: round-half-even versus half-away
		if r.Intn(3) == 0 {
			return float64(2*r.Intn(4000)-4000+1) / 8
		}
		return float64(2*r.Intn(16000)-16000+1) / 32
	case 9: // far away: small detail next to it is absorbed by careless arithmetic
		return math.Copysign(math.Pow(10, 13+3*r.Float64()), r.Float64()-0.5)
	default: // medium: beyond +-2148 (3MF de-duplication bucket range)
		return (r.Float64() - 0.5) * 20000
	}
}

func wildClass(r *simcore.RNG, mode string) int {
	switch mode {
	case "wild-small": // classes that keep |v| < 2000 and are well conditioned
		return []int{0, 1, 2, 6, 8, 10, 11}[r.Intn(7)]
	case "wild-medium":
		return []int{0, 1, 2, 6, 7, 8, 10, 11}[r.Intn(8)]
	default:
		return r.Intn(12)
	}
}

// poison replaces about one value in twenty by NaN, +-Inf or a value beyond the
// float32 range (coords mode "nonfinite": what a renderer emits for a model
// with a singularity, or a model of absurd size).
func poison(r *simcore.RNG, v float64) float64 {
	if r.Intn(20) != 0 {
		return v
	}
	return []float64{math.NaN(), math.Inf(1), math.Inf(-1), 1e39, -1e300}[r.Intn(5)]
}

func genTriangles(n int, coords string, seed uint64) []*sdf.Triangle3 {
	out := make([]*sdf.Triangle3, n)
	if coords == "nonfinite" {
		r := simcore.NewRNG(seed)
		for i := range out {
			t := *indexTriangle(i)
			for k := 0; k < 3; k++ {
				t[k] = v3.Vec{X: poison(r, t[k].X), Y: poison(r, t[k].Y), Z: poison(r, t[k].Z)}
			}
			out[i] = &t
		}
		return out
	}
	if coords == "" || coords == "index" {
		for i := range out {
			out[i] = indexTriangle(i)
		}
		return out
	}
	r := simcore.NewRNG(seed)
	var pool []v3.Vec
	for i := range out {
		cls := wildClass(r, coords)
		var t sdf.Triangle3
		for k := 0; k < 3; k++ {
			if len(pool) > 0 && r.Intn(4) == 0 {
				t[k] = pool[r.Intn(len(pool))] // shared vertex
			} else if len(pool) > 0 && r.Intn(5) == 0 {
				// near-duplicate: a vertex a hair away from an earlier one, often
				// across a decimal rounding boundary (exercises de-duplication)
				b := pool[r.Intn(len(pool))]
				d := []float64{0, 1e-7, -1e-7, 3e-6, -3e-6, 2e-5, -2e-5, 4e-5, -4e-5, 6e-5, -6e-5, 1e-4}
				snap := func(v float64) float64 {
					if r.Intn(2) == 0 && math.Abs(v) < 1e6 {
						v = math.Round(v*1e4)/1e4 + 5e-5 // sit on a 4-decimal rounding boundary
					}
					return v + d[r.Intn(len(d))]
				}
				t[k] = v3.Vec{X: snap(b.X), Y: snap(b.Y), Z: snap(b.Z)}
				pool = append(pool, t[k])
			} else {
				t[k] = v3.Vec{X: wildFloat(r, cls), Y: wildFloat(r, cls), Z: wildFloat(r, cls)}
				pool = append(pool, t[k])
			}
		}
		if r.Intn(12) == 0 {
			// a needle: two long edges meeting at an angle of 1e-7..1e-3 rad, the thin
			// corner at a seeded vertex (non-degenerate, area > 0)
			a := v3.Vec{X: wildFloat(r, 1), Y: wildFloat(r, 1), Z: wildFloat(r, 1)}
			l := 0.5 + r.Float64()*20
			eps := math.Pow(10, -3-4*r.Float64())
			b := v3.Vec{X: a.X + l, Y: a.Y, Z: a.Z}
			c := v3.Vec{X: a.X + l, Y: a.Y + l*eps, Z: a.Z}
			switch r.Intn(3) {
			case 0:
				t = sdf.Triangle3{a, b, c}
			case 1:
				t = sdf.Triangle3{c, a, b}
			default:
				t = sdf.Triangle3{b, c, a}
			}
			if r.Intn(2) == 0 {
				t[1], t[2] = t[2], t[1]
			}
		}
		if r.Intn(20) == 0 {
			// a sliver thinner than the float32 spacing of its coordinates: rounding the
			// vertices to float32 may reverse its orientation (or flatten it); a reader
			// must still hand back the stored vertices in the stored order
			a := v3.Vec{X: wildFloat(r, 1), Y: wildFloat(r, 1), Z: wildFloat(r, 1)}
			b := v3.Vec{X: wildFloat(r, 1), Y: wildFloat(r, 1), Z: wildFloat(r, 1)}
			s := r.Float64()
			w := math.Pow(10, -9-4*r.Float64())
			c := v3.Vec{X: a.X + s*(b.X-a.X) + w*(b.Y-a.Y), Y: a.Y + s*(b.Y-a.Y) - w*(b.X-a.X), Z: a.Z + s*(b.Z-a.Z)}
			t = sdf.Triangle3{a, b, c}
			if r.Intn(2) == 0 {
				t[1], t[2] = t[2], t[1]
			}
		}
		if i > 0 && r.Intn(16) == 0 {
			t = *out[r.Intn(i)] // duplicate triangle
		}
		out[i] = &t
	}
	return out
}

func genLines(n int, coords string, seed uint64) []*sdf.Line2 {
	out := make([]*sdf.Line2, n)
	if coords == "nonfinite" {
		r := simcore.NewRNG(seed)
		for i := range out {
			l := *indexLine(i)
			for k := 0; k < 2; k++ {
				l[k] = v2.Vec{X: poison(r, l[k].X), Y: poison(r, l[k].Y)}
			}
			out[i] = &l
		}
		return out
	}
	if coords == "" || coords == "index" {
		for i := range out {
			out[i] = indexLine(i)
		}
		return out
	}
	r := simcore.NewRNG(seed)
	var pool []v2.Vec
	for i := range out {
		cls := []int{0, 1, 2, 6, 7, 3, 8, 8, 1, 4, 10, 11}[r.Intn(12)]
		if coords == "wild-small" {
			cls = []int{0, 1, 2, 6, 8, 10, 11}[r.Intn(7)]
		}
		if coords != "wild-small" && r.Intn(12) == 0 {
			cls = 9
		}
		var l sdf.Line2
		for k := 0; k < 2; k++ {
			if len(pool) > 0 && r.Intn(4) == 0 {
				l[k] = pool[r.Intn(len(pool))]
			} else {
				l[k] = v2.Vec{X: wildFloat(r, cls), Y: wildFloat(r, cls)}
				pool = append(pool, l[k])
			}
		}
		switch r.Intn(12) {
		case 0:
			l[1].Y = l[0].Y // horizontal
		case 1:
			l[1].X = l[0].X // vertical
		case 2:
			l[1] = l[0] // a point
		}
		if i > 0 && r.Intn(16) == 0 {
			l = *out[r.Intn(i)]
		}
		out[i] = &l
	}
	if n > 0 && r.Intn(10) == 0 { // a drawing entirely in the negative quadrant
		for _, l := range out {
			for k := 0; k < 2; k++ {
				l[k].X, l[k].Y = -math.Abs(l[k].X)-1, -math.Abs(l[k].Y)-1
			}
		}
	}
	return out
}

// splitBatches cuts the item list into per-producer batch lists according to
// the run-length partition. A size of -1 is a nil batch.
func splitBatches[T any](items []T, parts [][]Run) [][][]T {
	out := make([][][]T, len(parts))
	pos := 0
	for p, runs := range parts {
		for _, r := range runs {
			for c := 0; c < r.Count; c++ {
				if r.Size < 0 {
					out[p] = append(out[p], nil)
					continue
				}
				end := pos + r.Size
				if end > len(items) {
					end = len(items)
				}
				b := make([]T, end-pos)
				copy(b, items[pos:end])
				out[p] = append(out[p], b)
				pos = end
			}
		}
	}
	if pos < len(items) { // remainder goes to the last producer as one batch
		p := len(parts) - 1
		if p < 0 {
			out = append(out, nil)
			p = 0
		}
		out[p] = append(out[p], append([]T(nil), items[pos:]...))
	}
	return out
}

func partItems(parts [][]Run) int {
	n := 0
	for _, runs := range parts {
		for _, r := range runs {
			if r.Size > 0 {
				n += r.Size * r.Count
			}
		}
	}
	return n
}

// ---------------------------------------------------------------------------
// keys: a canonical string per item as each sink must hold it

func f64key(v float64) string { return strconv.FormatUint(math.Float64bits(v), 16) }
func f32key(v float32) string { return strconv.FormatUint(uint64(math.Float32bits(v)), 16) }

func triKeyMem(t *sdf.Triangle3) string {
	s := ""
	for k := 0; k < 3; k++ {
		s += f64key(t[k].X) + "," + f64key(t[k].Y) + "," + f64key(t[k].Z) + ";"
	}
	return s
}

// STL: the float32 rounding of the input vertices in order and winding.
func triKeySTLInput(t *sdf.Triangle3) string {
	s := ""
	for k := 0; k < 3; k++ {
		s += f32key(float32(t[k].X)) + "," + f32key(float32(t[k].Y)) + "," + f32key(float32(t[k].Z)) + ";"
	}
	return s
}

func triKeySTLRec(r *stlRec) string {
	s := ""
	for _, v := range [][3]float32{r.V1, r.V2, r.V3} {
		s += f32key(v[0]) + "," + f32key(v[1]) + "," + f32key(v[2]) + ";"
	}
	return s
}

// round to d decimals as a decimal formatter does, then compare as numbers
// (so "-0.00" and "0.00" are the same value).
func roundDec(v float64, d int, bits int) float64 {
	s := strconv.FormatFloat(v, 'f', d, bits)
	x, _ := strconv.ParseFloat(s, 64)
	if x == 0 {
		x = 0
	}
	return x
}

func numKey(v float64) string {
	if v == 0 {
		v = 0 // -0 == 0
	}
	return strconv.FormatFloat(v, 'g', -1, 64)
}

// 3MF: vertices equal to the inputs rounded to float32 and to four decimals.
func triKey3MFInput(t *sdf.Triangle3) string {
	s := ""
	for k := 0; k < 3; k++ {
		for _, c := range []float64{t[k].X, t[k].Y, t[k].Z} {
			s += numKey(roundDec(float64(float32(c)), 4, 32)) + ","
		}
		s += ";"
	}
	return s
}

func triKey3MFOut(m *mf3File, tri [3]int) (string, error) {
	s := ""
	for _, vi := range tri {
		if vi < 0 || vi >= len(m.Verts) {
			return "", fmt.Errorf("triangle refers to vertex %d of %d", vi, len(m.Verts))
		}
		for _, c := range m.Verts[vi] {
			s += numKey(c) + ","
		}
		s += ";"
	}
	return s, nil
}

// DXF: exact coordinates.
func lineKeyDXFInput(l *sdf.Line2) string {
	return numKey(l[0].X) + "," + numKey(l[0].Y) + ";" + numKey(l[1].X) + "," + numKey(l[1].Y)
}

// the same at the 16 decimal places the DXF writer emits
func lineKeyDXFInput16(l *sdf.Line2) string {
	r := func(v float64) string { return numKey(roundDec(v, 16, 64)) }
	return r(l[0].X) + "," + r(l[0].Y) + ";" + r(l[1].X) + "," + r(l[1].Y)
}

func lineKeyDXFOut(l *dxfLine) string {
	return numKey(l.X1) + "," + numKey(l.Y1) + ";" + numKey(l.X2) + "," + numKey(l.Y2)
}

func lineKeyMem(l *sdf.Line2) string {
	return f64key(l[0].X) + "," + f64key(l[0].Y) + ";" + f64key(l[1].X) + "," + f64key(l[1].Y)
}

// SVG reference model: translate so that the drawing's minimum corner is the
// origin, flip Y, two decimals, canvas = extent.
type svgRef struct {
	W, H                   float64
	Lines                  []string
	minX, minY, maxX, maxY float64
}

func svgReference(lines []*sdf.Line2) svgRef {
	var ref svgRef
	if len(lines) == 0 {
		return ref
	}
	minX, minY := math.Inf(1), math.Inf(1)
	maxX, maxY := math.Inf(-1), math.Inf(-1)
	for _, l := range lines {
		for k := 0; k < 2; k++ {
			minX = math.Min(minX, l[k].X)
			minY = math.Min(minY, l[k].Y)
			maxX = math.Max(maxX, l[k].X)
			maxY = math.Max(maxY, l[k].Y)
		}
	}
	ref.minX, ref.minY, ref.maxX, ref.maxY = minX, minY, maxX, maxY
	ref.W = roundDec(maxX-minX, 2, 64)
	ref.H = roundDec(maxY-minY, 2, 64)
	for _, l := range lines {
		ref.Lines = append(ref.Lines,
			numKey(roundDec(l[0].X-minX, 2, 64))+","+numKey(roundDec(maxY-l[0].Y, 2, 64))+";"+
				numKey(roundDec(l[1].X-minX, 2, 64))+","+numKey(roundDec(maxY-l[1].Y, 2, 64)))
	}
	return ref
}

func svgOutKey(l *svgLine) (string, error) {
	var v [4]float64
	for i, s := range []string{l.X1, l.Y1, l.X2, l.Y2} {
		x, err := strconv.ParseFloat(s, 64)
		if err != nil {
			return "", fmt.Errorf("bad number %q", s)
		}
		v[i] = x
	}
	return numKey(v[0]) + "," + numKey(v[1]) + ";" + numKey(v[2]) + "," + numKey(v[3]), nil
}

// compareKeys checks sequence (ordered) or multiset equality and describes
// the first difference.
func compareKeys(want, got []string, ordered bool) (bool, string) {
	if !ordered {
		want = append([]string(nil), want...)
		got = append([]string(nil), got...)
		sort.Strings(want)
		sort.Strings(got)
	}
	if len(want) != len(got) {
		// find a lost or duplicated item for the message
		cnt := map[string]int{}
		for _, k := range want {
			cnt[k]++
		}
		for _, k := range got {
			cnt[k]--
		}
		lost, extra := 0, 0
		for _, c := range cnt {
			if c > 0 {
				lost += c
			} else {
				extra -= c
			}
		}
		return false, fmt.Sprintf("sink holds %d items, %d were written (%d lost, %d duplicated or foreign)", len(got), len(want), lost, extra)
	}
	for i := range want {
		if want[i] != got[i] {
			kind := "multiset differs"
			if ordered {
				kind = "sequence differs"
			}
			return false, fmt.Sprintf("%s at position %d of %d: want %s got %s", kind, i, len(want), want[i], got[i])
		}
	}
	return true, ""
}
