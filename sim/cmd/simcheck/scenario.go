package main

import (
	"verif/sim/simcore"
)

// Yield sites. The numeric order is the order of the canonical (fifo)
// schedule.
const (
	SStart simcore.Site = iota + 1
	SProd
	SWrite
	SClose
	SSent
	SEvalPre
	SEvalPost
	SLeafPre
	SLeafPost
	SCaller
	SConsTri
	SConsSTL
	SConsSTLFlush
	SCons3MF
	SCons3MFEnc
	SConsDXF
	SConsDXFSave
	SConsSVG
	SConsSVGSave
	SGoStart     // a consumer goroutine that has been created but has not run yet
	SWorkerStart // an evaluation worker that has been created but has not run yet
	SAuto        // automatically inserted hook before a synchronisation operation (cmd/instrument)
	SHarness
	siteCount
)

var siteNames = map[simcore.Site]string{
	SStart: "start", SProd: "prod", SWrite: "write", SClose: "close", SSent: "mc.sent",
	SEvalPre: "eval.pre", SEvalPost: "eval.post", SLeafPre: "leaf.pre", SLeafPost: "leaf.post",
	SCaller: "caller", SConsTri: "cons.tri", SConsSTL: "cons.stl", SConsSTLFlush: "cons.stl.flush",
	SCons3MF: "cons.3mf", SCons3MFEnc: "cons.3mf.encode", SConsDXF: "cons.dxf", SConsDXFSave: "cons.dxf.save",
	SConsSVG: "cons.svg", SConsSVGSave: "cons.svg.save", SHarness: "harness",
	SGoStart: "go.start", SWorkerStart: "worker.start", SAuto: "auto",
}

var siteByName = func() map[string]simcore.Site {
	m := map[string]simcore.Site{}
	for k, v := range siteNames {
		m[v] = k
	}
	return m
}()

// hook site strings used inside /repo (tag verif) -> Site
var hookSites = map[string]simcore.Site{
	"sdf.WriteTriangles":        SConsTri,
	"render.writeSTL":           SConsSTL,
	"render.writeSTL.flush":     SConsSTLFlush,
	"render.write3MF":           SCons3MF,
	"render.write3MF.encode":    SCons3MFEnc,
	"render.writeDXF":           SConsDXF,
	"render.writeDXF.save":      SConsDXFSave,
	"render.writeSVG":           SConsSVG,
	"render.writeSVG.save":      SConsSVGSave,
	"render.layerYZ.sent":       SSent,
	"sdf.WriteTriangles.start":  SGoStart,
	"render.writeSTL.start":     SGoStart,
	"render.write3MF.start":     SGoStart,
	"render.writeDXF.start":     SGoStart,
	"render.writeSVG.start":     SGoStart,
	"render.evalRoutines.start": SWorkerStart,
	"auto":                      SAuto,
}

// consumer-side sites (the "stalled consumer" victim class)
func isConsumerSite(s simcore.Site) bool {
	return (s >= SConsTri && s <= SConsSVGSave) || s == SGoStart
}

// Scenario is one fully expanded episode: history x schedule x faults.
type Scenario struct {
	Prop    string            `json:"prop"`
	Family  string            `json:"family"`
	Seed    uint64            `json:"seed"`
	Groups  [][]Job           `json:"groups"` // sequential groups of concurrently started jobs
	Sched   Sched             `json:"sched"`
	Sites   map[string]uint32 `json:"sites"` // site -> modulus (absent/0 = off, 1 = every time, k = one in k)
	Env     Env               `json:"env"`
	Census  bool              `json:"census,omitempty"`
	StepCap int               `json:"step_cap,omitempty"`
	// slow consumer in real time (the library has no clock seam): every
	// ConsStallEvery-th arrival of a writer goroutine at one of its hook sites
	// sleeps ConsStallMs before it parks
	ConsStallMs    int    `json:"cons_stall_ms,omitempty"`
	ConsStallEvery int    `json:"cons_stall_every,omitempty"`
	GCStormMs      int    `json:"gc_storm_ms,omitempty"`     // a goroutine of the environment forces a garbage collection every so many milliseconds (finalizers run, pools are emptied)
	ConsStallSite  string `json:"cons_stall_site,omitempty"` // only at this hook site (e.g. "cons.dxf.save": the writer's final step)
	Note           string `json:"note,omitempty"`
}

// Sched describes the schedule policy.
type Sched struct {
	Policy  string `json:"policy"` // fifo lifo uniform pct starve burst explicit
	Seed    uint64 `json:"seed,omitempty"`
	D       int    `json:"d,omitempty"`      // pct change points
	Victim  string `json:"victim,omitempty"` // starve: "consumer", "producer:<i>", "eval:<k>", "job:<j>"
	Trig    int    `json:"trig,omitempty"`   // starve: the victim is let through whenever another goroutine is parked at the Trig-th distinct automatically instrumented code location
	Leak    int    `json:"leak,omitempty"`   // starve: the victim is let through once in Leak steps on average (slow, not stopped)
	Choices []int  `json:"choices,omitempty"`
	Sizes   []int  `json:"sizes,omitempty"`
	Lenient bool   `json:"lenient,omitempty"`
}

// Env is the process environment of the episode.
type Env struct {
	GOMAXPROCS int    `json:"gomaxprocs"`
	CPUs       int    `json:"cpus"` // CPU affinity (=> runtime.NumCPU, the worker pool size)
	Race       bool   `json:"race"`
	TZ         string `json:"tz,omitempty"` // TZ of the process (Pacific/Kiritimati and Etc/GMT+12 are 26 hours apart: always two calendar days)
}

// Job is one top-level library call.
type Job struct {
	ID          int      `json:"id"`
	Kind        string   `json:"kind"` // script3 script2 mcu mco msu msq dc2 dc3v1 dc3v2 buf3 buf2 wt save eval load
	Sink        string   `json:"sink"` // tri stl 3mf dxf svg
	Model       string   `json:"model,omitempty"`
	Cells       int      `json:"cells,omitempty"`
	N           int      `json:"n,omitempty"`
	Batches     [][]Run  `json:"batches,omitempty"`       // per producer: run-length list of batch sizes
	StallMs     int      `json:"stall_ms,omitempty"`      // scripted renderers: real-time pause after the first batch (a slow renderer; the library has no clock seam, so this is wall-clock time)
	Name        string   `json:"name,omitempty"`          // output file name (default job<id>.<ext>): spaces, non-ASCII, format verbs, long names, odd extensions
	Pre         int      `json:"pre,omitempty"`           // bytes of unrelated content already stored at the output path before the call
	Share       bool     `json:"share,omitempty"`         // take the renderer value (and, in single-job groups, the model object) from the episode's pool, as a program that keeps them in variables does
	CloseAt     []int    `json:"close_at,omitempty"`      // single producer: call Close() before these batch indices (mid-stream flush)
	Reuse       bool     `json:"reuse,omitempty"`         // scripted renderers: batches are written from one scratch slice that is overwritten once Write has returned
	CloseTwice  bool     `json:"close_twice,omitempty"`   // scripted renderers: Close is called twice at the end
	EvalStallMs int      `json:"eval_stall_ms,omitempty"` // real renderers: the EvalStallAt-th evaluation takes this long in real time
	EvalStallAt int      `json:"eval_stall_at,omitempty"`
	Fresh       bool     `json:"fresh,omitempty"`  // eval family: the callers mostly query points nobody has queried before
	Warm        int      `json:"warm,omitempty"`   // eval family: sequential warm-up evaluations at distinct points before the concurrent phase
	Coords      string   `json:"coords,omitempty"` // index | wild
	CoordSeed   uint64   `json:"coord_seed,omitempty"`
	Fault       Fault    `json:"fault"`
	EvalMod     uint32   `json:"eval_mod,omitempty"` // park one evaluation in k (0 = never)
	WriteMod    uint32   `json:"write_mod,omitempty"`
	Leaves      bool     `json:"leaves,omitempty"`  // wrap leaves of harness-built composites
	Callers     int      `json:"callers,omitempty"` // eval family
	Points      int      `json:"points,omitempty"`
	Ops         []string `json:"ops,omitempty"`  // load family: storage fault operators
	Base        string   `json:"base,omitempty"` // load family: base file
}

// Run is a run-length encoded batch size: Count batches of Size items
// (Size -1 = a nil slice).
type Run struct {
	Size  int `json:"s"`
	Count int `json:"c"`
}

// Fault is a disk fault plan for one job.
type Fault struct {
	Kind   string `json:"kind,omitempty"` // "" nodir isdir devfull fsize rofile
	Budget int64  `json:"budget,omitempty"`
}

// Check is an oracle verdict.
type Check struct {
	OK    bool   `json:"ok"`
	Class string `json:"class,omitempty"`
	Msg   string `json:"msg,omitempty"`
}

// JobResult is what a job reports.
type JobResult struct {
	ID         int     `json:"id"`
	Returned   bool    `json:"returned"`
	AtReturn   *Check  `json:"at_return,omitempty"`
	AtEnd      *Check  `json:"at_end,omitempty"`
	Digest     string  `json:"digest,omitempty"`
	DigestRet  string  `json:"digest_at_return,omitempty"` // C09: digest of the sink the moment the call returned
	Digest2    string  `json:"digest_no_owner,omitempty"`  // DXF: digest with owner handles (group 330) blanked
	Items      int     `json:"items,omitempty"`
	FaultFired bool    `json:"fault_fired,omitempty"`
	FaultNote  string  `json:"fault_note,omitempty"`
	Sig        string  `json:"sig,omitempty"` // model/renderer/cells/sink signature for C09 grouping
	Notices    []Check `json:"notices,omitempty"`
}

// Result is what an episode process prints.
type Result struct {
	Seed        uint64                  `json:"seed"`
	Prop        string                  `json:"prop"`
	Verdict     string                  `json:"verdict"` // ok violation harness-error
	Class       string                  `json:"class,omitempty"`
	Msg         string                  `json:"msg,omitempty"`
	Notices     []Check                 `json:"notices,omitempty"`
	Sim         string                  `json:"sim"` // simulator verdict of the last group
	Steps       int                     `json:"steps"`
	TraceHash   string                  `json:"trace_hash"`
	ChoiceSteps int                     `json:"choice_steps"`
	MaxParked   int                     `json:"max_parked"`
	StallSteps  int                     `json:"stall_steps"`
	SitePark    map[string]int          `json:"site_park,omitempty"`
	Switches    map[string]int          `json:"switches,omitempty"`
	Jobs        []JobResult             `json:"jobs,omitempty"`
	Census      []int                   `json:"census,omitempty"`
	Blocked     []simcore.GoroutineInfo `json:"blocked,omitempty"`
	Faults      map[string]int          `json:"faults,omitempty"`
	Probes      map[string]int          `json:"probes,omitempty"`
	Choices     []int                   `json:"choices,omitempty"`
	Sizes       []int                   `json:"sizes,omitempty"`
	WallMs      float64                 `json:"wall_ms"`
	NumCPU      int                     `json:"numcpu"`
	Race        bool                    `json:"race"`
	MaxGor      int                     `json:"max_goroutines"`
	Snapshots   int                     `json:"snapshots"`
}
