package main

import (
	"bytes"
	"crypto/sha256"
	"encoding/hex"
	"fmt"
	"math"
	"os"
	"strconv"

	"github.com/deadsy/sdfx/sdf"
)

// sinkState is what a job knows about its sink and what it fed into it.
type sinkState struct {
	sink     string
	path     string
	tris     []*sdf.Triangle3 // items written, in the order of the item ids
	lines    []*sdf.Line2
	ordered  bool // single producer: the sequence must be preserved
	exactDXF bool // C15: DXF coordinates must parse back to exactly the input
	circles  int  // drawing-object episodes: point markers added with DXF.Points
	pipe     bool // the output went down a named pipe; path holds what the reader received

	notices  []Check          // secondary findings that do not stop the other checks
	outTris  []*sdf.Triangle3 // what ToTriangles returned
	outLines []*sdf.Line2
}

func bad(class, format string, a ...any) Check {
	return Check{OK: false, Class: class, Msg: fmt.Sprintf(format, a...)}
}

var okCheck = Check{OK: true}

// check decodes the sink and compares it with what was written.
func (s *sinkState) check() Check {
	switch s.sink {
	case "tri":
		want := make([]string, len(s.tris))
		for i, t := range s.tris {
			want[i] = triKeyMem(t)
		}
		got := make([]string, len(s.outTris))
		for i, t := range s.outTris {
			if t == nil {
				return bad("sink-content", "collector holds a nil triangle at %d", i)
			}
			got[i] = triKeyMem(t)
		}
		if ok, msg := compareKeys(want, got, s.ordered); !ok {
			return bad("sink-content", "in-memory collector: %s", msg)
		}
		return okCheck
	case "lines":
		want := make([]string, len(s.lines))
		for i, l := range s.lines {
			want[i] = lineKeyMem(l)
		}
		got := make([]string, len(s.outLines))
		for i, l := range s.outLines {
			got[i] = lineKeyMem(l)
		}
		if ok, msg := compareKeys(want, got, s.ordered); !ok {
			return bad("sink-content", "line collector: %s", msg)
		}
		return okCheck
	case "stl":
		return s.checkSTL()
	case "3mf":
		return s.check3MF()
	case "dxf":
		return s.checkDXF()
	case "svg":
		return s.checkSVG()
	}
	return bad("harness", "unknown sink %q", s.sink)
}

func (s *sinkState) checkSTL() Check {
	f, err := decodeSTLFile(s.path)
	if err != nil {
		return bad("sink-missing", "stl: %v", err)
	}
	n := len(s.tris)
	// (on a pipe the header cannot be rewritten: the count field is whatever the
	// placeholder header held; every record must still be there)
	if int(f.Count) != n && !s.pipe {
		return bad("stl-count", "stl count field is %d, %d triangles were written (file %d bytes, %d records)", f.Count, n, f.Size, len(f.Recs))
	}
	if f.Size != 84+50*n {
		return bad("stl-size", "stl file is %d bytes, want 84+50*%d=%d", f.Size, n, 84+50*n)
	}
	want := make([]string, n)
	for i, t := range s.tris {
		want[i] = triKeySTLInput(t)
	}
	got := make([]string, len(f.Recs))
	for i := range f.Recs {
		got[i] = triKeySTLRec(&f.Recs[i])
	}
	if ok, msg := compareKeys(want, got, s.ordered); !ok {
		return bad("sink-content", "stl records: %s", msg)
	}
	// format clauses
	for i := range f.Recs {
		if f.Recs[i].Attr != 0 {
			return bad("stl-attr", "record %d has attribute bytes %#x", i, f.Recs[i].Attr)
		}
	}
	if s.ordered {
		for i, t := range s.tris {
			if c := checkNormal(t, f.Recs[i].N); !c.OK {
				c.Msg = fmt.Sprintf("record %d: %s", i, c.Msg)
				return c
			}
		}
	}
	return okCheck
}

// checkNormal: the right-hand-rule unit normal for well-conditioned
// non-degenerate triangles.
func checkNormal(t *sdf.Triangle3, n [3]float32) Check {
	e1 := t[1].Sub(t[0])
	e2 := t[2].Sub(t[0])
	c := e1.Cross(e2)
	l1, l2, lc := e1.Length(), e2.Length(), c.Length()
	if !(l1 > 0) || !(l2 > 0) || math.IsInf(l1, 0) || math.IsInf(l2, 0) || math.IsInf(lc, 0) || math.IsNaN(lc) {
		return okCheck
	}
	// Thin triangles are not degenerate: with float64 inputs the cross product of
	// edges that meet at sin(angle) >= 1e-8 still fixes the direction to ~1e-8.
	if lc/(l1*l2) < 1e-8 || l1/l2 > 1e9 || l2/l1 > 1e9 {
		return okCheck // too close to degenerate for the normal to be well defined
	}
	// cancellation guard: edges must be resolvable at the magnitude of the vertices
	mag := math.Max(t[0].Length(), math.Max(t[1].Length(), t[2].Length()))
	if l1 < mag*1e-9 || l2 < mag*1e-9 {
		return okCheck
	}
	u := [3]float64{c.X / lc, c.Y / lc, c.Z / lc}
	for k := 0; k < 3; k++ {
		if math.Abs(float64(n[k])-u[k]) > 1e-5 {
			return bad("stl-normal", "normal (%g,%g,%g), right-hand rule gives (%g,%g,%g)", n[0], n[1], n[2], u[0], u[1], u[2])
		}
	}
	return okCheck
}

func (s *sinkState) check3MF() Check {
	m, err := decode3MFFile(s.path)
	if err != nil {
		return bad("sink-missing", "3mf: %v", err)
	}
	if m.Unit != "millimeter" {
		return bad("3mf-unit", "3mf unit is %q", m.Unit)
	}
	if m.Objects != 1 || m.BuildItems != 1 {
		return bad("3mf-object", "3mf holds %d objects and %d build items, want one of each", m.Objects, m.BuildItems)
	}
	want := make([]string, len(s.tris))
	for i, t := range s.tris {
		want[i] = triKey3MFInput(t)
	}
	got := make([]string, len(m.Tris))
	used := make([]bool, len(m.Verts))
	for i, t := range m.Tris {
		k, err := triKey3MFOut(m, t)
		if err != nil {
			return bad("3mf-index", "triangle %d: %v", i, err)
		}
		got[i] = k
		for _, vi := range t {
			used[vi] = true
		}
	}
	if ok, msg := compareKeys(want, got, s.ordered); !ok {
		return bad("sink-content", "3mf triangles: %s", msg)
	}
	// vertex table: every entry referenced; not more entries than distinct float32 input vertices
	for i, u := range used {
		if !u {
			return bad("3mf-vertices", "vertex %d of the table is referenced by no triangle", i)
		}
	}
	distinct := map[[3]uint32]bool{}
	for _, t := range s.tris {
		for k := 0; k < 3; k++ {
			distinct[[3]uint32{math.Float32bits(float32(t[k].X) + 0), math.Float32bits(float32(t[k].Y) + 0), math.Float32bits(float32(t[k].Z) + 0)}] = true
		}
	}
	if len(m.Verts) > len(distinct) {
		return bad("3mf-dedup", "vertex table has %d entries for %d distinct input vertices (not de-duplicated)", len(m.Verts), len(distinct))
	}
	return okCheck
}

func (s *sinkState) checkDXF() Check {
	s.notices = nil
	d, err := decodeDXFFile(s.path)
	if err != nil {
		return bad("sink-missing", "dxf: %v", err)
	}
	// (s.circles: markers a program added with DXF.Points, which are CIRCLE entities)
	circles := 0
	for _, e := range d.OtherEntities {
		if e == "CIRCLE" {
			circles++
		}
	}
	if len(d.OtherEntities) != circles || circles != s.circles {
		return bad("dxf-entities", "dxf holds entities other than the LINEs (and %d point markers) added: %v", s.circles, d.OtherEntities[:min(4, len(d.OtherEntities))])
	}
	want := make([]string, len(s.lines))
	want16 := make([]string, len(s.lines))
	for i, l := range s.lines {
		want[i] = lineKeyDXFInput(l)
		want16[i] = lineKeyDXFInput16(l)
	}
	got := make([]string, len(d.Lines))
	for i := range d.Lines {
		l := &d.Lines[i]
		if l.Layer != "Lines" {
			return bad("dxf-layer", "LINE %d is on layer %q, want \"Lines\"", i, l.Layer)
		}
		if l.Z1 != 0 || l.Z2 != 0 {
			return bad("dxf-z", "LINE %d has z %g/%g", i, l.Z1, l.Z2)
		}
		got[i] = lineKeyDXFOut(l)
	}
	// conservation: every segment is there, identified at the 16 decimal
	// places the DXF writer emits
	if ok, msg := compareKeys(want16, got, s.ordered); !ok {
		return bad("sink-content", "dxf lines: %s", msg)
	}
	// C15 "exact coordinates": the decimal text must parse back to the input
	// (reported as a notice so that the remaining checks of the job still run)
	if s.exactDXF {
		if ok, msg := compareKeys(want, got, s.ordered); !ok {
			s.notices = append(s.notices, bad("dxf-precision", "dxf coordinates are written with 16 decimal places and do not parse back to the exact input: %s", msg))
		}
	}
	return okCheck
}

func (s *sinkState) checkSVG() Check {
	f, err := decodeSVGFile(s.path)
	if err != nil {
		return bad("sink-missing", "svg: %v", err)
	}
	ref := svgReference(s.lines)
	w, e1 := strconv.ParseFloat(f.Width, 64)
	h, e2 := strconv.ParseFloat(f.Height, 64)
	if e1 != nil || e2 != nil {
		return bad("svg-canvas", "canvas %q x %q is not numeric", f.Width, f.Height)
	}
	if !s.ordered {
		// several producers: the order is free, compare the multiset of lines
		got := make([]string, len(f.Lines))
		for i := range f.Lines {
			k, err := svgOutKey(&f.Lines[i])
			if err != nil {
				return bad("svg-number", "line %d: %v", i, err)
			}
			got[i] = k
		}
		if ok, msg := compareKeys(ref.Lines, got, false); !ok {
			return bad("sink-content", "svg lines: %s", msg)
		}
		if numKey(w) != numKey(ref.W) || numKey(h) != numKey(ref.H) {
			return bad("svg-canvas", "canvas %s x %s, drawing extent is %g x %g", f.Width, f.Height, ref.W, ref.H)
		}
		return okCheck
	}
	// one producer: line i of the file is segment i. Every written number must
	// be a two-decimal rounding of the exact translated / flipped coordinate
	// (exact = computed without rounding error from the float64 inputs; one
	// ulp of slack for the single subtraction any implementation needs).
	if len(f.Lines) != len(s.lines) {
		return bad("sink-content", "svg holds %d lines, %d segments were written", len(f.Lines), len(s.lines))
	}
	if len(s.lines) == 0 {
		if w != 0 || h != 0 {
			return bad("svg-canvas", "canvas %s x %s for an empty drawing", f.Width, f.Height)
		}
		return okCheck
	}
	minX, minY, maxX, maxY := ref.minX, ref.minY, ref.maxX, ref.maxY
	if !twoDecOf(w, maxX, minX) || !twoDecOf(h, maxY, minY) {
		return bad("svg-canvas", "canvas %s x %s, drawing extent is %g x %g", f.Width, f.Height, maxX-minX, maxY-minY)
	}
	for i, l := range s.lines {
		var v [4]float64
		for k, t := range []string{f.Lines[i].X1, f.Lines[i].Y1, f.Lines[i].X2, f.Lines[i].Y2} {
			x, err := strconv.ParseFloat(t, 64)
			if err != nil {
				return bad("svg-number", "line %d: bad number %q", i, t)
			}
			v[k] = x
		}
		if !twoDecOf(v[0], l[0].X, minX) || !twoDecOf(v[1], maxY, l[0].Y) || !twoDecOf(v[2], l[1].X, minX) || !twoDecOf(v[3], maxY, l[1].Y) {
			return bad("sink-content", "svg line %d is (%s,%s)-(%s,%s); segment (%g,%g)-(%g,%g) with minimum corner (%g,%g) and top %g must map to (%g,%g)-(%g,%g)",
				i, f.Lines[i].X1, f.Lines[i].Y1, f.Lines[i].X2, f.Lines[i].Y2, l[0].X, l[0].Y, l[1].X, l[1].Y, minX, minY, maxY,
				l[0].X-minX, maxY-l[0].Y, l[1].X-minX, maxY-l[1].Y)
		}
	}
	return okCheck
}

// twoDecOf reports whether v is a two-decimal rounding of the exact value of
// a-b (a, b float64), allowing one ulp of the difference for the subtraction.
func twoDecOf(v, a, b float64) bool {
	s := a - b
	if math.IsInf(s, 0) || math.IsNaN(s) {
		return math.IsInf(v, 0) || math.IsNaN(v) || math.Abs(v) >= math.MaxFloat64/2
	}
	// error-free transformation: a-b = s+e exactly
	bb := a - s
	e := (a - (s + bb)) + (bb - b)
	if math.IsNaN(e) || math.IsInf(e, 0) {
		e = 0
	}
	ulp := math.Abs(math.Nextafter(s, math.Inf(1)) - s)
	diff := math.Abs((v - s) - e)
	return diff <= 0.005+2*ulp+1e-18
}

// digestNoOwner: DXF only - the digest of the file with the values of the
// handle-reference groups (owner 330, plot style 390, ...) blanked. Used to tell known finding K2
// (owner handles of the shared table records) from any other difference.
func (s *sinkState) digestNoOwner() string {
	if s.sink != "dxf" {
		return ""
	}
	b, err := os.ReadFile(s.path)
	if err != nil {
		return "error:" + err.Error()
	}
	lines := bytes.Split(b, []byte("\n"))
	h := sha256.New()
	for i := 0; i < len(lines); i++ {
		h.Write(lines[i])
		h.Write([]byte("\n"))
		if i%2 == 0 && i+1 < len(lines) {
			// handle-reference groups: 320-369 (owner and other pointers), 390-399 (plot style)
			if c, err := strconv.Atoi(string(bytes.TrimSpace(lines[i]))); err == nil && ((c >= 320 && c <= 369) || (c >= 390 && c <= 399)) {
				i++ // skip the handle value
				h.Write([]byte("<handle>\n"))
			}
		}
	}
	return hex.EncodeToString(h.Sum(nil))[:32]
}

// digest of the sink content for cross-execution comparison (C09).
func (s *sinkState) digest() string {
	h := sha256.New()
	switch s.sink {
	case "tri":
		for _, t := range s.outTris {
			h.Write([]byte(triKeyMem(t)))
		}
		fmt.Fprintf(h, "n=%d", len(s.outTris))
	case "3mf":
		m, err := decode3MFFile(s.path)
		if err != nil {
			return "error:" + err.Error()
		}
		fmt.Fprintf(h, "unit=%s objs=%d items=%d\n", m.Unit, m.Objects, m.BuildItems)
		for _, v := range m.VertsText {
			fmt.Fprintf(h, "v %s %s %s\n", v[0], v[1], v[2])
		}
		for _, t := range m.Tris {
			fmt.Fprintf(h, "t %d %d %d\n", t[0], t[1], t[2])
		}
	default:
		b, err := os.ReadFile(s.path)
		if err != nil {
			return "error:" + err.Error()
		}
		h.Write(b)
	}
	return hex.EncodeToString(h.Sum(nil))[:32]
}
