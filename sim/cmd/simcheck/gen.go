package main

import (
	"fmt"
	"strings"

	"verif/sim/simcore"
)

// buildPlan expands (property, tier, VERIF_SEED) into the list of episodes.
func buildPlan(prop, tier string, seed uint64) (*plan, error) {
	root := simcore.NewRNG(seed ^ uint64(len(prop))<<32 ^ hashString(prop))
	switch prop {
	case "C09":
		return planC09(tier, root), nil
	case "C10":
		return planC10(tier, root), nil
	case "C11":
		return planC11(tier, root), nil
	case "C12":
		return planC12(tier, root), nil
	case "C13":
		return planC13(tier, root), nil
	case "C14":
		return planC14(tier, root), nil
	case "C15":
		return planC15(tier, root), nil
	}
	return nil, fmt.Errorf("property %s is not claimed by this machinery", prop)
}

func hashString(s string) uint64 {
	h := uint64(1469598103934665603)
	for i := 0; i < len(s); i++ {
		h ^= uint64(s[i])
		h *= 1099511628211
	}
	return h
}

func pick[T any](r *simcore.RNG, xs []T) T { return xs[r.Intn(len(xs))] }

// genPartition splits n items over p producers and each share into batches.
func genPartition(r *simcore.RNG, n, p int, style string) [][]Run {
	if p < 1 {
		p = 1
	}
	shares := make([]int, p)
	left := n
	for i := 0; i < p-1; i++ {
		s := 0
		if left > 0 {
			s = r.Intn(left + 1)
			if r.Intn(3) == 0 {
				s = left / (p - i)
			}
		}
		shares[i] = s
		left -= s
	}
	shares[p-1] = left
	out := make([][]Run, p)
	for i, share := range shares {
		out[i] = genRuns(r, share, style)
	}
	return out
}

func genRuns(r *simcore.RNG, n int, style string) []Run {
	var runs []Run
	push := func(size int) {
		if len(runs) > 0 && runs[len(runs)-1].Size == size {
			runs[len(runs)-1].Count++
			return
		}
		runs = append(runs, Run{size, 1})
	}
	switch style {
	case "single":
		if n > 0 {
			runs = append(runs, Run{1, n})
		}
	case "one":
		runs = append(runs, Run{n, 1})
	case "fives":
		if n/5 > 0 {
			runs = append(runs, Run{5, n / 5})
		}
		if n%5 > 0 {
			runs = append(runs, Run{n % 5, 1})
		}
	case "chunks": // large outputs: a few sizes, many items
		c := pick(r, []int{997, 4096, 256, 10000, 65536})
		if n/c > 0 {
			runs = append(runs, Run{c, n / c})
		}
		if n%c > 0 {
			runs = append(runs, Run{n % c, 1})
		}
	case "small": // what marching cubes does: 0..5 per write
		left := n
		for left > 0 {
			s := r.Intn(6)
			if s > left {
				s = left
			}
			push(s)
			left -= s
		}
		if r.Intn(2) == 0 {
			push(0)
		}
	default: // mixed: empty and nil batches, sizes around and above any plausible threshold
		sizes := []int{0, -1, 1, 1, 2, 3, 5, 7, 31, 100, 127, 128, 129, 200, 255, 256, 257, 263, 264, 265, 300, 511, 513, 700}
		left := n
		for left > 0 {
			s := pick(r, sizes)
			if s > left {
				s = left
			}
			push(s)
			if s > 0 {
				left -= s
			}
		}
		if r.Intn(2) == 0 {
			push(pick(r, []int{0, -1}))
		}
	}
	return runs
}

func countBatches(parts [][]Run) int {
	n := 0
	for _, p := range parts {
		for _, r := range p {
			n += r.Count
		}
	}
	return n
}

var interestingCounts = []int{0, 1, 2, 3, 4, 5, 7, 8, 9, 15, 16, 17, 31, 32, 33, 63, 64, 65, 80, 81, 82, 163, 164, 245, 246, 127, 128, 129, 131, 132, 133, 255, 256, 257, 263, 264, 265, 383, 384, 385, 511, 512, 513, 527, 528, 529, 767, 768, 769, 1023, 1024, 1025}

func genCount(r *simcore.RNG, tier string) int {
	switch r.Intn(10) {
	case 0, 1, 2, 3:
		return pick(r, interestingCounts)
	case 4, 5, 6, 7:
		return r.Intn(1101)
	case 8:
		return r.Intn(40)
	default:
		if tier == "thorough" {
			return 1100 + r.Intn(12000)
		}
		return 1100 + r.Intn(2500)
	}
}

// output file names a user might choose
var fileNames = []string{"", "", "", "", "a b c.EXT", "ünï-çødé.EXT", "UPPER.EXT", "noext", "two.dots.v1.2.EXT", "100%d%s%v.EXT", ".hidden.EXT", "-dash.EXT",
	"long-" + strings.Repeat("x", 180) + ".EXT", "file.EXT.bak", "sub dir name.EXT", "@dotdot/part.EXT", "@dotdot/part.EXT", "@link/latest.EXT", "@link/latest.EXT"}

// consumer-side hook sites of a sink
func sinkSites(sink string) []string {
	switch sink {
	case "tri":
		return []string{"cons.tri"}
	case "stl":
		return []string{"cons.stl", "cons.stl.flush"}
	case "3mf":
		return []string{"cons.3mf", "cons.3mf.encode"}
	case "dxf":
		return []string{"cons.dxf", "cons.dxf.save"}
	case "svg":
		return []string{"cons.svg", "cons.svg.save"}
	}
	return nil
}

// genSched draws a schedule policy. victims lists the starve victims that
// make sense for the scenario.
func genSched(r *simcore.RNG, victims []string) Sched {
	s := Sched{Seed: r.Uint64()}
	switch r.Intn(10) {
	case 0:
		s.Policy = "fifo"
	case 1:
		s.Policy = "lifo"
	case 2, 3, 4:
		s.Policy = "uniform"
	case 5, 6:
		s.Policy = "pct"
		s.D = 1 + r.Intn(3)
	case 7, 8:
		if len(victims) > 0 {
			s.Policy = "starve"
			s.Victim = pick(r, victims)
			// a third slow rather than stopped; a third stopped but let through whenever
			// another goroutine is at one particular instrumented code location
			switch r.Intn(3) {
			case 0:
				s.Leak = pick(r, []int{4, 16, 64, 256})
			case 1:
				s.Trig = 1 + r.Intn(12)
			}
		} else {
			s.Policy = "uniform"
		}
	default:
		s.Policy = "burst"
	}
	return s
}

func genEnv(r *simcore.RNG) Env {
	// CPUs = what runtime.NumCPU reports and what GOMAXPROCS is when the packages are
	// initialised; GOMAXPROCS = what the program sets afterwards (may be above or below)
	return Env{GOMAXPROCS: pick(r, []int{1, 2, 4, 16}), CPUs: pick(r, []int{16, 16, 16, 4, 2, 1})}
}

// ---------------------------------------------------------------------------
// C11

func scriptJob(r *simcore.RNG, id int, tier string, sinks []string, n int, styles []string) (Job, []string) {
	sink := pick(r, sinks)
	kind := "script3"
	if sink == "dxf" || sink == "svg" {
		kind = "script2"
	}
	p := 1
	if r.Intn(2) == 0 {
		p = 2 + r.Intn(3)
	}
	style := pick(r, styles)
	j := Job{ID: id, Kind: kind, Sink: sink, N: n, Batches: genPartition(r, n, p, style), Coords: "index"}
	if sink != "tri" {
		j.Name = pick(r, fileNames)
	}
	j.Reuse = r.Intn(4) == 0
	j.CloseTwice = r.Intn(5) == 0
	if r.Intn(4) == 0 {
		// arbitrary geometry instead of numbered items: slivers, near-duplicate and
		// shared vertices, duplicates (the multiset oracle counts multiplicities)
		j.Coords = pick(r, []string{"wild-small", "wild-medium", "wild"})
		j.CoordSeed = r.Uint64()
	}
	var victims []string
	victims = append(victims, "consumer", "renderer")
	for i := 0; i < p && p > 1; i++ {
		victims = append(victims, fmt.Sprintf("producer:%d", i))
	}
	return j, victims
}

func activeSites(r *simcore.RNG, sink string, always bool) map[string]uint32 {
	sites := map[string]uint32{"prod": 1, "close": 1, "write": 1}
	if always || r.Intn(5) != 0 {
		sites["go.start"] = 1
	}
	if r.Intn(2) == 0 {
		// automatically inserted hooks before every lock / send / wait / atomic
		// operation of the library (cmd/instrument): interleavings inside Write,
		// Close and the To* functions
		sites["auto"] = pick(r, []uint32{1, 2, 4, 8})
	}
	for _, s := range sinkSites(sink) {
		if always || r.Intn(5) != 0 { // buggify subset: each hook is active in 4 of 5 episodes
			sites[s] = 1
		}
	}
	return sites
}

func planC11(tier string, root *simcore.RNG) *plan {
	pl := &plan{prop: "C11", level: "exploration", batch: 24}
	n := 480
	if tier == "thorough" {
		n = 30000
	}
	if tier == "replay" {
		n = 0
	}
	sinks := []string{"tri", "stl", "3mf", "dxf", "svg"}
	id := 0
	for i := 0; i < n; i++ {
		r := root.Fork()
		sc := &Scenario{Prop: "C11", Family: "pipeline", Seed: r.Uint64(), Env: genEnv(r)}
		if r.Intn(8) == 0 {
			// a real renderer: the reference is what it wrote through the tap
			kind := pick(r, []string{"mco", "mcu", "msu", "msq", "dc2"})
			j := Job{ID: 1, Kind: kind, Cells: 6 + r.Intn(10), EvalMod: 0}
			if kind == "mco" || kind == "mcu" {
				j.Model = pick(r, model3Names)
				j.Sink = pick(r, []string{"tri", "stl", "3mf"})
				if kind == "mcu" {
					j.EvalMod = 16
				}
			} else {
				j.Model = pick(r, model2Names)
				j.Sink = pick(r, []string{"dxf", "svg"})
			}
			sc.Groups = [][]Job{{j}}
			sc.Sites = activeSites(r, j.Sink, false)
			sc.Sites["write"] = 4
			sc.Sites["eval.pre"] = 16
			sc.Sched = genSched(r, []string{"consumer", "renderer"})
		} else {
			cnt := genCount(r, tier)
			j, victims := scriptJob(r, 1, tier, sinks, cnt, []string{"single", "one", "fives", "small", "mixed", "mixed"})
			if countBatches(j.Batches) > 3000 {
				j.Batches = genPartition(r, cnt, len(j.Batches), "mixed")
			}
			// a renderer may call Close in the middle of its output (single producer)
			if nb := countBatches(j.Batches); len(j.Batches) == 1 && nb > 2 && r.Intn(4) == 0 {
				for k := 0; k < 1+r.Intn(3); k++ {
					j.CloseAt = append(j.CloseAt, 1+r.Intn(nb-1))
				}
			}
			if j.Sink != "tri" && r.Intn(4) == 0 {
				j.Pre = pick(r, []int{1, 84, 5000, 300000})
			} else if j.Sink != "tri" && r.Intn(8) == 0 {
				// the output path is a named pipe (as with /dev/stdout into another program):
				// nothing can be sought or truncated; every item must still reach the reader
				j.Fault = Fault{Kind: "fifo"}
				j.Name = ""
			}
			sc.Groups = [][]Job{{j}}
			sc.Sites = activeSites(r, j.Sink, false)
			sc.Sched = genSched(r, victims)
			// sometimes two pipelines at once (separate sinks, one process)
			if r.Intn(6) == 0 {
				j2, _ := scriptJob(r, 2, tier, sinks, genCount(r, "quick")%600, []string{"small", "mixed"})
				sc.Groups[0] = append(sc.Groups[0], j2)
				for k, v := range activeSites(r, j2.Sink, false) {
					sc.Sites[k] = v
				}
			}
		}
		// a share of the episodes runs on the -race build (parking is invisible
		// to the race detector): all interleavings inside Write/Close that the
		// seam-level schedule cannot produce are judged by happens-before
		multi := false
		for _, j := range sc.Groups[0] {
			multi = multi || len(j.Batches) > 1
		}
		if (multi && r.Intn(2) == 0) || r.Intn(6) == 0 {
			sc.Env.Race = true
		}
		// a slow consumer in real time: the writer goroutine sleeps 3..6 ms at every
		// k-th arrival at one of its hook sites
		if r.Intn(6) == 0 {
			sc.ConsStallMs, sc.ConsStallEvery = 3+r.Intn(4), pick(r, []int{1, 2, 4})
			// the producer keeps running while the consumer is slow
			sc.Sites["prod"], sc.Sites["write"] = 64, 64
		}
		if r.Intn(8) == 0 {
			sc.GCStormMs = 2 + r.Intn(8)
		}
		id++
		pl.scenarios = append(pl.scenarios, sc)
	}
	// trigger sweep: the consumer (thorough: also the renderer) is held back and let
	// through exactly when another goroutine is parked at the k-th distinct
	// instrumented code location, for every k (ordering bugs of depth two: "B's
	// event between two particular statements of A")
	if tier != "replay" {
		for _, sc := range triggerSweep(root, "C11", "pipeline", sinks, tier) {
			pl.scenarios = append(pl.scenarios, sc)
		}
	}
	// a writer whose final step (flush + header rewrite, encode, save) takes 11 s of real
	// time (thorough: also 31 s): the call must not return before the file is complete
	if tier != "replay" {
		finals := map[string]string{"stl": "cons.stl.flush", "3mf": "cons.3mf.encode", "dxf": "cons.dxf.save", "svg": "cons.svg.save"}
		stalls := []int{11000}
		if tier == "thorough" {
			stalls = []int{11000, 31000}
		}
		for _, sink := range []string{"stl", "3mf", "dxf", "svg"} {
			for _, ms := range stalls {
				r := root.Fork()
				j, _ := scriptJob(r, 1, tier, []string{sink}, 300+r.Intn(600), []string{"fives", "small"})
				j.Name = ""
				pl.scenarios = append(pl.scenarios, &Scenario{Prop: "C11", Family: "pipeline", Seed: r.Uint64(), Env: genEnv(r), Groups: [][]Job{{j}},
					Sites: map[string]uint32{"prod": 16, "close": 1}, Sched: Sched{Policy: "fifo"}, Note: "slow-final-step",
					ConsStallMs: ms, ConsStallEvery: 1, ConsStallSite: finals[sink]})
			}
		}
	}
	// large outputs: counts around 2^16 (and 2^17, thorough 2^20) for every sink
	if tier != "replay" {
		reps := 1
		big := []int{65535, 65536, 65537, 65536 + 255, 65536 + 256, 131073}
		if tier == "thorough" {
			reps = 4
			big = append(big, 1<<20+1, 262144, 200000)
		}
		for _, sink := range sinks {
			for k := 0; k < reps; k++ {
				r := root.Fork()
				cnt := pick(r, big)
				if k == 0 {
					cnt = 65536 + r.Intn(3)
				}
				if cnt > 300000 && (sink == "dxf" || sink == "svg" || sink == "3mf") {
					cnt = 200000 + r.Intn(3)
				}
				j, victims := scriptJob(r, 1, tier, []string{sink}, cnt, []string{"chunks", "chunks", "one"})
				j.Name = ""
				sc := &Scenario{Prop: "C11", Family: "pipeline", Seed: r.Uint64(), Env: genEnv(r), Groups: [][]Job{{j}}, Note: "large"}
				sc.Sites = activeSites(r, j.Sink, false)
				delete(sc.Sites, "auto")
				sc.Sched = genSched(r, victims)
				sc.StepCap = 4000000
				if r.Intn(2) == 0 {
					sc.Env.Race = true
				}
				pl.scenarios = append(pl.scenarios, sc)
			}
		}
	}
	if tier == "thorough" {
		// exhaustive over item counts 0..1100 x three canonical partitions, single producer
		k := 0
		for cnt := 0; cnt <= 1100; cnt++ {
			for _, style := range []string{"single", "one", "fives"} {
				r := root.Fork()
				sink := sinks[k%len(sinks)]
				k++
				kind := "script3"
				if sink == "dxf" || sink == "svg" {
					kind = "script2"
				}
				j := Job{ID: 1, Kind: kind, Sink: sink, N: cnt, Batches: [][]Run{genRuns(r, cnt, style)}, Coords: "index"}
				sc := &Scenario{Prop: "C11", Family: "pipeline", Seed: r.Uint64(), Env: genEnv(r), Groups: [][]Job{{j}},
					Sites: activeSites(r, sink, true), Sched: Sched{Policy: pick(r, []string{"fifo", "uniform", "starve"}), Victim: "consumer", Seed: r.Uint64()},
					Note: "exhaustive-count-sweep"}
				if style == "single" {
					sc.Sites["prod"] = 8
				}
				pl.scenarios = append(pl.scenarios, sc)
			}
		}
		pl.extra = map[string]any{"exhaustive_subspace": "item counts 0..1100 x {singletons, one batch, batches of five} x single producer, sinks in rotation"}
	}
	pl.rule = "episode = scripted Render3/Render2 emitting uniquely numbered items (seeded count, batch partition incl. empty/nil/over-threshold batches, 1..4 producer goroutines) or a real renderer behind a tap, through the real buffer/channel/consumer into one of ToTriangles/ToSTL/To3MF/ToDXF/ToSVG under a seeded schedule (fifo, lifo, uniform, pct, starve(consumer|renderer|producer i), burst) with a seeded subset of consumer hooks active; a sixth of the episodes with a slow consumer in real time (3..6 ms at every k-th hook arrival); trigger sweeps (the consumer is held back and let through exactly when another goroutine is parked at the k-th distinct instrumented code location, k = 1..14, every sink); outputs of 2^16 +- 1 .. 2^17 + 1 items for every sink on both builds; oracle = decoded sink equals what was written (sequence for one producer, multiset otherwise), evaluated inside the calling goroutine the moment the call returns and again at quiescence. Non-trivial = the scheduler had >= 2 parked goroutines to choose from at >= 1 step; distinct = distinct trace hash."
	pl.assume = []string{
		"interleaving is controlled at seam granularity (producer Write calls, consumer loop iterations, final flush/encode/save); code between two yields runs at full speed; interleavings inside Write/Close are judged by the race detector in the episodes that run on the -race build (about half of the multi-producer ones, a sixth of the rest)",
		"file sinks are decoded by the harness's own STL/3MF(zip+xml)/DXF/SVG readers",
	}
	pl.real = []string{"sdf.Triangle3Buffer/Line2Buffer", "sdf.WriteTriangles", "render.ToTriangles/ToSTL/To3MF/ToDXF/ToSVG and their writer goroutines", "os file system (tmpfs/ext4 under $TMPDIR)", "real renderers in ~1/8 of the episodes"}
	pl.stubs = []string{"scripted Render3/Render2 producers (harness)", "goroutine scheduling choice (simulator)"}
	return pl
}

// triggerSweep: see planC11.
func triggerSweep(root *simcore.RNG, prop, family string, sinks []string, tier string) []*Scenario {
	var out []*Scenario
	victims := []string{"consumer"}
	reps := 1
	if tier == "thorough" {
		victims = []string{"consumer", "renderer"}
		reps = 3
	}
	for _, sink := range sinks {
		for _, vic := range victims {
			for k := 1; k <= 14; k++ {
				for rep := 0; rep < reps; rep++ {
					r := root.Fork()
					kind := "script3"
					n := 1100 + r.Intn(900)
					if sink == "dxf" || sink == "svg" {
						kind = "script2"
						n = 600 + r.Intn(600)
					}
					j := Job{ID: 1, Kind: kind, Sink: sink, N: n, Coords: "index", CoordSeed: r.Uint64(), Batches: genPartition(r, n, 1, pick(r, []string{"fives", "small", "mixed"}))}
					sites := map[string]uint32{"prod": 1, "close": 1, "write": 1, "auto": 1, "go.start": 1}
					for _, hs := range sinkSites(sink) {
						sites[hs] = 1
					}
					out = append(out, &Scenario{Prop: prop, Family: family, Seed: r.Uint64(), Env: genEnv(r), Groups: [][]Job{{j}}, Sites: sites,
						Sched: Sched{Policy: "starve", Victim: vic, Trig: k, Seed: r.Uint64()}, Note: "trigger-sweep"})
				}
			}
		}
	}
	return out
}
