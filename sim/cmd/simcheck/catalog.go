package main

// Catalogue of shapes for the C10 check: every exported constructor of sdf and
// obj that returns an SDF2/SDF3, instantiated with representative parameters.
// Entries are registered from catalog_sdf.go and catalog_obj.go.

import (
	"fmt"
	"go/ast"
	"go/parser"
	"go/token"
	"math"
	"os"
	"path/filepath"
	"sort"
	"strings"

	"github.com/deadsy/sdfx/sdf"
	v2 "github.com/deadsy/sdfx/vec/v2"
	v3 "github.com/deadsy/sdfx/vec/v3"
	"verif/sim/simcore"
)

// catEntry is one shape of the catalogue.
type catEntry struct {
	Name   string   // unique
	Ctors  []string // exported constructors exercised, e.g. "sdf.Cache2D", "obj.Bolt"
	Shared bool     // construction draws from process-global state (sdfRand): build once per process
	Heavy  bool     // evaluation is slow: fewer points
	// exactly one of Build2 / Build3. The builder wraps the leaves it hands to
	// combinators with lw.w2 / lw.w3 so that the simulator can park a caller
	// inside the combinator's Evaluate.
	Build2 func(lw *leafWrapper) sdf.SDF2
	Build3 func(lw *leafWrapper) sdf.SDF3
}

var catalogue []catEntry
var catalogueIndex = map[string]int{}

func register(e catEntry) {
	if _, dup := catalogueIndex[e.Name]; dup {
		panic("duplicate catalogue entry " + e.Name)
	}
	if (e.Build2 == nil) == (e.Build3 == nil) {
		panic("catalogue entry " + e.Name + " needs exactly one builder")
	}
	catalogueIndex[e.Name] = len(catalogue)
	catalogue = append(catalogue, e)
}

func catalogueNames() []string {
	var out []string
	for _, e := range catalogue {
		out = append(out, e.Name)
	}
	sort.Strings(out)
	return out
}

var sharedInstances = map[string]any{}

// buildEntry builds a fresh instance (or the process-wide one for Shared entries).
func buildEntry(name string, lw *leafWrapper) (s2 sdf.SDF2, s3 sdf.SDF3, err error) {
	i, ok := catalogueIndex[name]
	if !ok {
		return nil, nil, fmt.Errorf("no catalogue entry %q", name)
	}
	e := &catalogue[i]
	defer func() {
		if r := recover(); r != nil {
			err = fmt.Errorf("catalogue entry %s: construction panicked: %v", name, r)
		}
	}()
	if e.Shared {
		key := name // one instance per process, whatever the wrapping
		if v, ok := sharedInstances[key]; ok {
			if e.Build2 != nil {
				return v.(sdf.SDF2), nil, nil
			}
			return nil, v.(sdf.SDF3), nil
		}
		defer func() {
			if err == nil {
				if s2 != nil {
					sharedInstances[key] = s2
				} else {
					sharedInstances[key] = s3
				}
			}
		}()
	}
	if lw == nil {
		lw = &leafWrapper{}
	}
	if e.Build2 != nil {
		s2 = e.Build2(lw)
		if s2 == nil {
			return nil, nil, fmt.Errorf("catalogue entry %s built a nil SDF2", name)
		}
		return s2, nil, nil
	}
	s3 = e.Build3(lw)
	if s3 == nil {
		return nil, nil, fmt.Errorf("catalogue entry %s built a nil SDF3", name)
	}
	return nil, s3, nil
}

// samplePoints draws n points in and around the bounding box.
func samplePoints3(bb sdf.Box3, r *simcore.RNG, n int) []v3.Vec {
	c := bb.Center()
	sz := bb.Size()
	out := make([]v3.Vec, n)
	for i := range out {
		// mostly in and just around the bounding box; every eighth point well outside it
		// (pruning and nearest-cell logic sees many candidates from far away)
		k := 1.2
		if i%8 == 7 {
			k = 4
		}
		out[i] = v3.Vec{X: c.X + (r.Float64()-0.5)*k*sz.X, Y: c.Y + (r.Float64()-0.5)*k*sz.Y, Z: c.Z + (r.Float64()-0.5)*k*sz.Z}
	}
	return out
}

func samplePoints2(bb sdf.Box2, r *simcore.RNG, n int) []v2.Vec {
	c := bb.Center()
	sz := bb.Size()
	out := make([]v2.Vec, n)
	for i := range out {
		k := 1.2
		if i%8 == 7 {
			k = 4
		}
		out[i] = v2.Vec{X: c.X + (r.Float64()-0.5)*k*sz.X, Y: c.Y + (r.Float64()-0.5)*k*sz.Y}
	}
	return out
}

// auditConstructors parses sdf and obj and lists exported functions returning
// SDF2/SDF3 that no catalogue entry names.
func auditConstructors() (total int, missing []string) {
	covered := map[string]bool{}
	for _, e := range catalogue {
		for _, c := range e.Ctors {
			covered[c] = true
		}
	}
	for _, pkg := range []string{"sdf", "obj"} {
		fset := token.NewFileSet()
		pkgs, err := parser.ParseDir(fset, filepath.Join(repoDir(), pkg), func(fi os.FileInfo) bool { return !strings.HasSuffix(fi.Name(), "_test.go") }, 0)
		if err != nil {
			continue
		}
		for _, p := range pkgs {
			for _, f := range p.Files {
				for _, d := range f.Decls {
					fd, ok := d.(*ast.FuncDecl)
					if !ok || fd.Recv != nil || !fd.Name.IsExported() || fd.Type.Results == nil {
						continue
					}
					ret := false
					for _, r := range fd.Type.Results.List {
						t := exprString(r.Type)
						if strings.HasSuffix(t, "SDF2") || strings.HasSuffix(t, "SDF3") {
							ret = true
						}
					}
					if !ret {
						continue
					}
					total++
					name := pkg + "." + fd.Name.Name
					if !covered[name] {
						missing = append(missing, name)
					}
				}
			}
		}
	}
	sort.Strings(missing)
	return total, missing
}

func exprString(e ast.Expr) string {
	switch t := e.(type) {
	case *ast.Ident:
		return t.Name
	case *ast.SelectorExpr:
		return exprString(t.X) + "." + t.Sel.Name
	case *ast.ArrayType:
		return "[]" + exprString(t.Elt)
	case *ast.StarExpr:
		return "*" + exprString(t.X)
	}
	return ""
}

// cmdCatalog: build every entry, evaluate a few points, report problems and the audit.
func cmdCatalog(args []string) int {
	bad := 0
	r := simcore.NewRNG(1)
	for _, name := range catalogueNames() {
		s2, s3, err := buildEntry(name, &leafWrapper{on: true})
		if err != nil {
			fmt.Println("FAIL", name, err)
			bad++
			continue
		}
		nan := 0
		func() {
			defer func() {
				if rec := recover(); rec != nil {
					fmt.Println("FAIL", name, "Evaluate panicked:", rec)
					bad++
				}
			}()
			if s2 != nil {
				bb := s2.BoundingBox()
				for _, p := range samplePoints2(bb, r, 10) {
					if d := s2.Evaluate(p); math.IsNaN(d) {
						nan++
					}
				}
				fmt.Printf("ok   %-28s 2D bb=%v nan=%d\n", name, bb.Size(), nan)
			} else {
				bb := s3.BoundingBox()
				for _, p := range samplePoints3(bb, r, 10) {
					if d := s3.Evaluate(p); math.IsNaN(d) {
						nan++
					}
				}
				fmt.Printf("ok   %-28s 3D bb=%v nan=%d\n", name, bb.Size(), nan)
			}
		}()
	}
	total, missing := auditConstructors()
	fmt.Printf("%d entries, %d failed; %d exported constructors, %d not named by any entry: %v\n", len(catalogue), bad, total, len(missing), missing)
	if bad > 0 {
		return 1
	}
	return 0
}
