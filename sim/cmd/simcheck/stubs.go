package main

import (
	"fmt"

	"verif/sim/simcore"
)

func (ep *episode) prepareEval(jr *jobRun) error { return fmt.Errorf("eval family not built yet") }
func cmdSelftest(args []string) int              { return 2 }
func cmdExpand(args []string) int                { return 2 }

func planC10(tier string, root *simcore.RNG) *plan { return &plan{prop: "C10", level: "exploration"} }
