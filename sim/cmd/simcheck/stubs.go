package main

func cmdExpand(args []string) int { return 2 }
