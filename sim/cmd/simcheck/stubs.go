package main

import (
	"fmt"

	"verif/sim/simcore"
)

func (ep *episode) prepareEval(jr *jobRun) error { return fmt.Errorf("eval family not built yet") }
func (ep *episode) runLoad() *Result {
	ep.res.Verdict, ep.res.Class = "harness-error", "not-built"
	return ep.res
}
func cmdSelftest(args []string) int { return 2 }
func cmdExpand(args []string) int   { return 2 }

func planC10(tier string, root *simcore.RNG) *plan { return &plan{prop: "C10", level: "exploration"} }
func planC13(tier string, root *simcore.RNG) *plan { return &plan{prop: "C13", level: "exploration"} }
func planC14(tier string, root *simcore.RNG) *plan {
	return &plan{prop: "C14", level: "fault_enumeration"}
}
func planC15(tier string, root *simcore.RNG) *plan { return &plan{prop: "C15", level: "exploration"} }
