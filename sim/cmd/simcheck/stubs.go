package main

func cmdSelftest(args []string) int { return 2 }
func cmdExpand(args []string) int   { return 2 }
