package main

import (
	"encoding/json"
	"fmt"
	"os"
)

// cmdExpand prints the scenarios of a plan, one JSON document per line
// (debugging aid: simcheck expand <ID> <tier>, with VERIF_SEED).
func cmdExpand(args []string) int {
	if len(args) < 2 {
		fmt.Fprintln(os.Stderr, "usage: simcheck expand <ID> <quick|thorough>")
		return 2
	}
	pl, err := buildPlan(args[0], args[1], envSeed())
	if err != nil {
		fmt.Fprintln(os.Stderr, err)
		return 2
	}
	enc := json.NewEncoder(os.Stdout)
	for _, sc := range pl.scenarios {
		enc.Encode(sc)
	}
	return 0
}
