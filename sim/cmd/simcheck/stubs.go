package main

import "fmt"

func (ep *episode) prepareEval(jr *jobRun) error { return fmt.Errorf("eval family not built yet") }
func (ep *episode) runLoad() *Result {
	ep.res.Verdict, ep.res.Class = "harness-error", "not-built"
	return ep.res
}
func cmdRun(args []string) int      { return 2 }
func cmdReplay(args []string) int   { return 2 }
func cmdSelftest(args []string) int { return 2 }
func cmdExpand(args []string) int   { return 2 }
