package main

import (
	"fmt"
	"strings"

	"verif/sim/simcore"
)

// C14: the loader is total over the storage-fault closure of valid files.

func planC14(tier string, root *simcore.RNG) *plan {
	pl := &plan{prop: "C14", level: "fault_enumeration", batch: 4}
	if tier == "replay" {
		return pl
	}
	thorough := tier == "thorough"
	type lcase struct {
		base  string
		ops   []string
		entry string
	}
	var cases, late []lcase
	add := func(base string, ops ...string) {
		cases = append(cases, lcase{base: base, ops: append([]string(nil), ops...), entry: "LoadSTL"})
	}
	seed := root.Uint64() % 100000
	bs := func(kind string, n int) string { return fmt.Sprintf("%s:%d:%d", kind, n, seed+uint64(n)) }
	sizes := map[string]int{}
	binSize := func(n int) int { return 84 + 50*n }
	// E1: truncation at every byte of small files
	for _, n := range []int{0, 1, 2, 5} {
		b := bs("bin", n)
		sizes[b] = binSize(n)
		for k := 0; k <= binSize(n); k++ {
			add(b, fmt.Sprintf("trunc:%d", k))
		}
	}
	{
		b := bs("stream", 3)
		for k := 0; k <= binSize(3); k++ {
			add(b, fmt.Sprintf("trunc:%d", k))
		}
	}
	asciiMax := map[int]int{0: 40, 1: 400, 2: 800, 3: 1200}
	for _, n := range []int{0, 1, 2, 3} {
		b := bs("ascii", n)
		for k := 0; k <= asciiMax[n]; k++ { // offsets beyond the file are counted as not applied
			add(b, fmt.Sprintf("trunc:%d", k))
		}
	}
	// E2: every bit of the count field, alone and with the file padded to match again
	for _, n := range []int{2, 5, 40} {
		b := bs("bin", n)
		for bit := 0; bit < 32; bit++ {
			add(b, fmt.Sprintf("flip:%d", 80*8+bit))
			add(b, fmt.Sprintf("flip:%d", 80*8+bit), "extend-to-match")
			add(b, fmt.Sprintf("flip:%d", 80*8+bit), "append-zero:50")
		}
		for _, c := range []int{0, 1, n - 1, n + 1, 1 << 31, 0xffffffff, 85899345, 85899346} {
			add(b, fmt.Sprintf("set-count:%d", c))
		}
	}
	// E2b: every stored float of small binary files replaced by NaN, +-Inf, MaxFloat32, a subnormal
	for _, n := range []int{1, 2, 5} {
		b := bs("bin", n)
		for t := 0; t < n; t++ {
			for f := 0; f < 12; f++ {
				off := 84 + 50*t + 4*f
				for _, bits := range []string{"7fc00000", "7f800000", "ff800000", "7f7fffff", "00000001"} {
					add(b, fmt.Sprintf("set-f32:%d:%s", off, bits))
				}
			}
		}
		// a whole triangle of NaNs / Infs, and a degenerate (all-equal) one
		add(b, "set-f32:96:7fc00000", "set-f32:100:7fc00000", "set-f32:104:7fc00000", "set-f32:108:7fc00000", "set-f32:112:7fc00000", "set-f32:116:7fc00000", "set-f32:120:7fc00000", "set-f32:124:7fc00000", "set-f32:128:7fc00000")
		add(b, "set-f32:96:7f800000", "set-f32:108:ff800000", "set-f32:120:7f800000")
		add(b, "zero-sector:0")
	}
	// E3: crash images of the streaming writer at every flush index
	for _, n := range []int{200, 1000} {
		flushes := (binSize(n) + 4095) / 4096
		for k := 0; k <= flushes; k++ {
			add(fmt.Sprintf("crash:%d:%d:%d", n, seed+uint64(n), k))
		}
		add(fmt.Sprintf("crash:%d:%d:%d", n, seed+uint64(n), -1))
	}
	// E4: line-level faults of ASCII files
	for _, n := range []int{1, 2, 3} {
		b := bs("ascii", n)
		lines := 2 + 7*n
		for i := 0; i < lines; i++ {
			add(b, fmt.Sprintf("drop-line:%d", i))
			add(b, fmt.Sprintf("dup-line:%d", i))
			for _, c := range []int{1, 3, 6, 9, 12, 20} {
				add(b, fmt.Sprintf("cut-line:%d:%d", i, c))
			}
			add(b, fmt.Sprintf("stray-token:%d:xyzzy", i))
			add(b, fmt.Sprintf("stray-token:%d:vertex", i))
			for k := 0; k < 13; k++ {
				add(b, fmt.Sprintf("bad-number:%d:%d", i, k))
			}
		}
		add(b, "crlf")
		add(b, "append-self")
		add(b, "append-rand:100:7")
	}
	// E5: sector faults of a 5-sector binary file and a 4-sector ASCII file
	for _, b := range []string{bs("bin", 40), bs("ascii", 8)} {
		for i := 0; i < 6; i++ {
			add(b, fmt.Sprintf("zero-sector:%d", i))
			add(b, fmt.Sprintf("rand-sector:%d:%d", i, 11+i))
			for j := 0; j < 6; j++ {
				if i != j {
					add(b, fmt.Sprintf("dup-sector:%d:%d", i, j))
					if i < j {
						add(b, fmt.Sprintf("swap-sector:%d:%d", i, j))
					}
				}
			}
		}
		for _, k := range []int{1, 49, 50, 51, 100, 4096} {
			add(b, fmt.Sprintf("append-zero:%d", k))
			add(b, fmt.Sprintf("append-rand:%d:%d", k, k))
		}
		add(b, "append-self")
	}
	// E8: alignment sweep: a CRLF (and an LF) ASCII file of ~130 KB shifted byte by
	// byte against the reader's buffer boundaries
	for k := 0; k < 72; k++ {
		add(bs("ascii", 600), fmt.Sprintf("pad-first-line:%d", k), "crlf")
		if k%4 == 0 {
			add(bs("ascii", 600), fmt.Sprintf("pad-first-line:%d", k))
		}
	}
	// E9: well-formed files in exporter number style (short mantissas, tiny round-off residues)
	for _, n := range []int{5, 60, 400} {
		for k := 0; k < 4; k++ {
			add(fmt.Sprintf("asciie:%d:%d", n, seed+uint64(7*n+k)))
		}
	}
	// E10: an over-long line at every line position of small ASCII files
	for _, n := range []int{1, 2, 3} {
		b := bs("ascii", n)
		for i := 0; i <= 2+7*n; i++ {
			add(b, fmt.Sprintf("long-line:%d:0", i))
			add(b, fmt.Sprintf("long-line:%d:1", i))
			add(b, fmt.Sprintf("long-line:%d:0", i), "crlf")
		}
	}
	// E11: well-formed files over a sweep of triangle counts (every small count;
	// powers of two, round decimal numbers and their neighbours up to 2^16)
	{
		var counts []int
		top := 300
		if thorough {
			top = 4200
		}
		for n := 0; n <= top; n++ {
			counts = append(counts, n)
		}
		for _, c := range []int{512, 1000, 1024, 2000, 2048, 3000, 3072, 4096, 5000, 8192, 10000, 16384, 32768, 50000, 65536} {
			counts = append(counts, c-1, c, c+1)
		}
		for _, n := range counts {
			add(bs("bin", n))
			if n <= 300 {
				// the same file lands in scenarios with other processor settings too
				for k := 1; k <= 3; k++ {
					late = append(late, lcase{base: bs("bin", n), entry: "LoadSTL"})
				}
			}
			if n <= 300 || n%7 == 0 || n&(n-1) == 0 || n%1000 == 0 {
				add(bs("stream", n))
			}
			if n <= 120 || (n <= 5001 && (n&(n-1) == 0 || n%1000 == 0)) {
				add(bs("ascii", n))
			}
		}
	}
	// E12: text of another encoding in front of every line of small ASCII files (alone,
	// and with the rest of the line cut short), and lines in another letter case
	for _, n := range []int{1, 2} {
		b := bs("ascii", n)
		for i := 0; i < 2+7*n; i++ {
			for style := 0; style < 4; style++ {
				for _, k := range []int{1, 3, 8, 40} {
					add(b, fmt.Sprintf("junk-prefix:%d:%d:%d", i, k, style))
				}
				add(b, fmt.Sprintf("cut-line:%d:%d", i, 9), fmt.Sprintf("junk-prefix:%d:%d:%d", i, 6, style))
				add(b, fmt.Sprintf("cut-line:%d:%d", i, 12), fmt.Sprintf("junk-prefix:%d:%d:%d", i, 12, style))
			}
			add(b, fmt.Sprintf("recode-line:%d:0", i))
			add(b, fmt.Sprintf("recode-line:%d:1", i))
			add(b, fmt.Sprintf("recode-line:%d:0", i), fmt.Sprintf("junk-prefix:%d:5:0", i))
		}
	}
	// E13: files that are nothing but lines without a vertex (empty lines, CRLF, junk words,
	// keyword lines), from a few to millions of them
	for _, n := range []int{1, 100, 65536, 2 << 20, 16 << 20} {
		for style := 0; style < 4; style++ {
			if n > 2<<20 && style != 0 {
				continue // 16 Mi lines only of the one-byte kind
			}
			if n > 1<<20 && style%2 == 1 && !thorough {
				continue
			}
			add(fmt.Sprintf("lines:%d:%d", n, style))
		}
	}
	// E14: facets that list no vertex at all (first, middle, last, all), and loads that start
	// with 0, 1 or 2 free file descriptors (files large enough for any parallel decoding)
	for _, n := range []int{1, 2, 3, 8} {
		b := bs("ascii", n)
		for i := 0; i < n; i++ {
			add(b, fmt.Sprintf("empty-facet:%d", i))
		}
		if n > 1 {
			add(b, "empty-facet:0", fmt.Sprintf("empty-facet:%d", n-1))
		}
	}
	for _, b := range []string{bs("bin", 40), bs("bin", 1024), bs("bin", 4096), bs("bin", 20000), bs("ascii", 30), bs("ascii", 600)} {
		for k := 0; k <= 2; k++ {
			add(b, fmt.Sprintf("fds-left:%d", k))
		}
	}
	// E7: what the path is
	for _, b := range []string{bs("bin", 2), bs("ascii", 2), bs("bin", 0)} {
		for _, op := range []string{"as-symlink", "as-directory", "as-devnull", "as-devzero", "as-missing", "odd-name"} {
			add(b, op)
		}
		add(b, "trunc:100", "as-symlink")
		add(b, "flip:640", "odd-name")
	}
	// E6: damage that hits many lines at once (decimal commas, every k-th number)
	for _, b := range []string{bs("ascii", 8), bs("ascii", 300), bs("ascii", 1500), "shipped:bottle.stl"} {
		add(b, "decimal-comma")
		for _, k := range []int{1, 2, 7} {
			add(b, fmt.Sprintf("bad-every:%d:%d", k, k))
		}
		add(b, "decimal-comma", "crlf")
	}
	for _, n := range []int{1, 10, 100, 500, 1500, 4000} {
		add(fmt.Sprintf("badverts:%d:%d", n, seed))
	}
	// arbitrary bytes and random token soups (no fault operator needed: the base is the fault)
	nrand := 150
	if thorough {
		nrand = 15000
	}
	for i := 0; i < nrand; i++ {
		r := root.Fork()
		sz := []int{0, 1, 5, 79, 80, 83, 84, 85, 133, 134, 135, 500, 4096}[r.Intn(13)]
		if r.Intn(3) == 0 {
			sz = r.Intn(3000)
		}
		cases = append(cases, lcase{base: fmt.Sprintf("rand:%d:%d", sz, r.Intn(1<<30)), entry: "LoadSTL"})
		cases = append(cases, lcase{base: fmt.Sprintf("tokens:%d:%d", 1+r.Intn(60), r.Intn(1<<30)), entry: "LoadSTL"})
	}
	enumerated := len(cases) - 2*nrand
	// S: sampled multi-fault sequences, incl. the shipped files
	nsample := 1500
	if thorough {
		nsample = 200000
	}
	bases := []string{bs("bin", 0), bs("bin", 1), bs("bin", 7), bs("bin", 40), bs("bin", 300), bs("stream", 120), bs("ascii", 1), bs("ascii", 4), bs("ascii", 30),
		"shipped:monkey.stl", "shipped:bottle.stl", "shipped:teapot.stl",
		fmt.Sprintf("crash:300:%d:2", seed), fmt.Sprintf("crash:300:%d:-1", seed)}
	approx := map[string]int{bases[0]: 84, bases[1]: 134, bases[2]: 434, bases[3]: 2084, bases[4]: 15084, bases[5]: 6084, bases[6]: 300, bases[7]: 1000, bases[8]: 7000,
		"shipped:monkey.stl": 18384, "shipped:bottle.stl": 295155, "shipped:teapot.stl": 471984, bases[12]: 8192, bases[13]: 15084}
	for i := 0; i < nsample; i++ {
		r := root.Fork()
		b := pick(r, bases)
		sz := approx[b]
		nops := 1 + r.Intn(4)
		var ops []string
		for k := 0; k < nops; k++ {
			secs := sz/512 + 1
			switch r.Intn(14) {
			case 0, 1:
				ops = append(ops, fmt.Sprintf("trunc:%d", r.Intn(sz+1)))
			case 2:
				ops = append(ops, fmt.Sprintf("zero-sector:%d", r.Intn(secs)))
			case 3:
				ops = append(ops, fmt.Sprintf("dup-sector:%d:%d", r.Intn(secs), r.Intn(secs)))
			case 4:
				ops = append(ops, fmt.Sprintf("swap-sector:%d:%d", r.Intn(secs), r.Intn(secs)))
			case 5:
				ops = append(ops, fmt.Sprintf("rand-sector:%d:%d", r.Intn(secs), r.Intn(1000)))
			case 6, 7:
				ops = append(ops, fmt.Sprintf("flip:%d", r.Intn(sz*8+1)))
			case 8:
				ops = append(ops, fmt.Sprintf("flip:%d", 640+r.Intn(32)))
			case 9:
				ops = append(ops, pick(r, []string{"append-zero:1", "append-zero:50", "append-rand:77:3", "append-self", "extend-to-match", "crlf"}))
			case 10:
				ops = append(ops, fmt.Sprintf("drop-line:%d", r.Intn(sz/30+1)))
			case 11:
				ops = append(ops, fmt.Sprintf("cut-line:%d:%d", r.Intn(sz/30+1), r.Intn(30)))
			case 12:
				ops = append(ops, fmt.Sprintf("bad-number:%d:%d", r.Intn(sz/30+1), r.Intn(13)))
			default:
				ops = append(ops, fmt.Sprintf("dup-line:%d", r.Intn(sz/30+1)))
			}
		}
		cases = append(cases, lcase{base: b, ops: ops, entry: "LoadSTL"})
	}
	// spread the repeated valid files over the case list (scenarios differ in processor settings)
	for i, c := range late {
		pos := (i*977 + 13) % (len(cases) + 1)
		cases = append(cases, lcase{})
		copy(cases[pos+1:], cases[pos:])
		cases[pos] = c
	}
	// the second entry point on a deterministic quarter of the cases (small files only)
	n0 := len(cases)
	for i := 0; i < n0; i += 4 {
		c := cases[i]
		if strings.HasPrefix(c.base, "shipped:teapot") || strings.HasPrefix(c.base, "shipped:bottle") {
			continue
		}
		cases = append(cases, lcase{base: c.base, ops: c.ops, entry: "ImportSTL"})
	}
	// pack the cases into scenarios
	per := 60
	id := 0
	for i := 0; i < len(cases); i += per {
		end := min(i+per, len(cases))
		// (the loader may split work by processor count: every setting gets a share of the cases;
		// GOMAXPROCS may exceed the number of CPUs)
		sc := &Scenario{Prop: "C14", Family: "load", Seed: root.Uint64(), Env: Env{GOMAXPROCS: []int{4, 16, 1, 32, 2, 64, 3, 8}[(i/per)%8], CPUs: 16}}
		var g []Job
		for _, c := range cases[i:end] {
			id++
			g = append(g, Job{ID: id, Kind: "load", Base: c.base, Ops: c.ops, Model: c.entry})
		}
		sc.Groups = [][]Job{g}
		pl.scenarios = append(pl.scenarios, sc)
	}
	pl.cases = func(o *runOut) (int, []string) {
		if o.res == nil {
			return 0, nil
		}
		var keys []string
		for _, jr := range o.res.Jobs {
			j0 := findJob(o.sc, jr.ID)
			if jr.FaultFired || (j0 != nil && (strings.HasPrefix(j0.Base, "rand:") || strings.HasPrefix(j0.Base, "badverts:") || strings.HasPrefix(j0.Base, "asciie:") || strings.HasPrefix(j0.Base, "tokens:") || strings.HasPrefix(j0.Base, "crash:"))) {
				if j := findJob(o.sc, jr.ID); j != nil {
					keys = append(keys, j.Model+"|"+j.Base+"|"+strings.Join(j.Ops, ","))
				}
			}
		}
		return len(o.res.Jobs), keys
	}
	pl.exhaust = true
	pl.extra = map[string]any{"enumerated_cases": enumerated, "sampled_multi_fault_cases": nsample, "arbitrary_byte_and_token_soup_cases": 2 * nrand,
		"exhaustive_subspace": "every truncation offset of 9 small binary/streamed/ASCII files; every bit of the count field of 3 binary files (alone, padded to match, +50 bytes); every flush-index crash image of the streaming writer for 200 and 1000 triangles; every line x {drop, dup, half-written at 6 columns, stray token, 13 malformed numbers} of 3 ASCII files; every single/pair sector fault of a 5-sector binary and a 4-sector ASCII file; undamaged binary/streamed/ASCII files for every triangle count 0..300 (thorough 0..4200) and for powers of two and round decimal counts +-1 up to 65537. Multi-fault sequences and the shipped files are sampled."}
	pl.rule = "case = base file (SaveSTL / ToSTL / harness-written ASCII / crash image of the streaming writer / shipped files / arbitrary bytes / random STL-token soup) + 0..4 storage-fault operators (truncate at byte n, zeroed / duplicated / swapped / PRNG-filled 512-byte sector, bit flip, count rewrite, trailing zeros / garbage / second copy, padding that makes 84+50*count match again, dropped / duplicated / half-written line, stray token, malformed number, CRLF, bytes of another text encoding in front of a line, a line in another letter case) loaded with render.LoadSTL and, for a quarter of the cases, obj.ImportSTL. Oracle: returns a mesh or an error; a recovered panic, no return within 20 s, or TotalAlloc growth above 1 MiB + 64 x file size is a violation. Non-trivial = at least one operator changed the file; distinct = (entry point, base, operators)."
	pl.assume = []string{
		"the claim is totality over the storage-fault closure of valid files (what a disk produces), not over adversarial byte strings; arbitrary bytes are reached only through PRNG-filled sectors and appended garbage",
		"a hang is judged by a 20 s wall-clock bound on sequential code (files <= 0.5 MB load in milliseconds)",
	}
	pl.real = []string{"render.LoadSTL, loadSTLBinary, loadSTLAscii, parseFloats", "obj.ImportSTL / ImportTriMesh (rtree bulk load)", "render.SaveSTL and ToSTL for the base files", "file system"}
	pl.stubs = []string{"storage faults are applied to the file image by the harness between write and read"}
	return pl
}
