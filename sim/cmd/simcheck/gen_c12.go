package main

import (
	"fmt"

	"verif/sim/simcore"
)

// C12: every render-to-file call returns under disk faults; goroutines do not
// accumulate over render histories.

func fsizeBudgets(expectSize int64, every bool) []int64 {
	set := map[int64]bool{}
	add := func(v int64) {
		if v >= 0 {
			set[v] = true
		}
	}
	for _, v := range []int64{0, 1, 83, 84, 85, 100, 4095, 4096, 4097} {
		add(v)
	}
	limit := expectSize
	if limit <= 0 {
		limit = 128 << 10
	}
	for k := int64(1); k*4096 <= limit+4096; k++ {
		add(k*4096 - 1)
		add(k * 4096)
		add(k*4096 + 1)
	}
	if expectSize > 0 {
		add(expectSize - 1)
		add(expectSize - 84)
		add(expectSize - 85)
		add(expectSize) // not reached: the fault-free control
		add(expectSize + 4096)
	}
	if every && expectSize > 0 && expectSize <= 16<<10 {
		for v := int64(0); v <= expectSize; v++ {
			add(v)
		}
	}
	var out []int64
	for v := range set {
		out = append(out, v)
	}
	sortInt64(out)
	return out
}

func sortInt64(a []int64) {
	for i := 1; i < len(a); i++ {
		for j := i; j > 0 && a[j] < a[j-1]; j-- {
			a[j], a[j-1] = a[j-1], a[j]
		}
	}
}

func planC12(tier string, root *simcore.RNG) *plan {
	pl := &plan{prop: "C12", level: "fault_enumeration", batch: 1}
	if tier == "replay" {
		return pl
	}
	thorough := tier == "thorough"
	type entry struct {
		kind, sink, model string
		cells, n          int
	}
	entries := []entry{
		{"script3", "stl", "", 0, 1000}, {"script3", "stl", "", 0, 300}, {"script3", "3mf", "", 0, 1000},
		{"script3", "stl", "", 0, 9000}, // long enough for anything the writer does every few thousand triangles
		{"script2", "dxf", "", 0, 600}, {"script2", "svg", "", 0, 600},
		{"script3", "stl", "", 0, 0}, {"script3", "3mf", "", 0, 0}, {"script2", "dxf", "", 0, 0}, {"script2", "svg", "", 0, 0}, {"script3", "stl", "", 0, 1},
		{"mco", "stl", "sphere-box", 12, 0}, {"mcu", "stl", "csg", 10, 0}, {"mco", "3mf", "csg", 10, 0},
		{"msu", "dxf", "circle-box", 24, 0}, {"msq", "svg", "poly", 24, 0}, {"dc2", "dxf", "poly", 16, 0},
	}
	if thorough {
		entries = append(entries,
			entry{"script3", "stl", "", 0, 5000}, entry{"script3", "stl", "", 0, 81}, entry{"script3", "stl", "", 0, 0},
			entry{"mcu", "3mf", "sphere-box", 12, 0}, entry{"mcu", "stl", "extrude-poly", 14, 0},
			entry{"msq", "dxf", "bezier", 30, 0}, entry{"msu", "svg", "gear-ish", 30, 0}, entry{"dc2", "svg", "circle-box", 20, 0},
			entry{"script2", "dxf", "", 0, 3000}, entry{"script2", "svg", "", 0, 3000}, entry{"script3", "3mf", "", 0, 4000})
	}
	scheds := []Sched{{Policy: "fifo"}, {Policy: "uniform"}, {Policy: "starve", Victim: "consumer"}, {Policy: "starve", Victim: "renderer"}}
	id := 0
	mk := func(e entry, f Fault, s Sched, r *simcore.RNG) *Scenario {
		id++
		j := Job{ID: 1, Kind: e.kind, Sink: e.sink, Model: e.model, Cells: e.cells, N: e.n, Fault: f, Coords: "index"}
		if e.kind == "script3" || e.kind == "script2" {
			p := 1
			if r.Intn(3) == 0 {
				p = 2 + r.Intn(2)
			}
			j.Batches = genPartition(r, e.n, p, pick(r, []string{"small", "fives", "mixed", "one"}))
		}
		if e.kind == "mcu" {
			j.EvalMod = 16
		}
		s.Seed = r.Uint64()
		sites := activeSites(r, e.sink, true)
		sites["write"] = 4
		sites["eval.pre"] = 16
		sites["mc.sent"] = 1
		sites["worker.start"] = 1
		return &Scenario{Prop: "C12", Family: "fault", Seed: r.Uint64(), Groups: [][]Job{{j}}, Sched: s, Sites: sites, Env: genEnv(r)}
	}
	faultPoints := 0
	for _, e := range entries {
		var expect int64
		if e.sink == "stl" && e.n > 0 {
			expect = int64(84 + 50*e.n)
		}
		every := thorough && e.kind == "script3" && e.sink == "stl" && e.n <= 300
		budgets := fsizeBudgets(expect, every)
		if !thorough && e.n >= 5000 {
			// the long file: every flush index, without the +-1 neighbours
			var keep []int64
			for _, b := range budgets {
				if b%4096 == 0 || b < 200 || b > expect-200 {
					keep = append(keep, b)
				}
			}
			budgets = keep
		}
		if expect == 0 {
			// size unknown in advance: flush-granular budgets up to 128 KiB (fired budgets are counted from the runs)
			budgets = fsizeBudgets(0, false)
			if !thorough {
				budgets = thinInt64(budgets, 2)
			}
		}
		// plus seeded offsets that are not aligned to anything ("at any byte offset")
		{
			rb := root.Fork()
			lim := expect
			if lim <= 0 {
				lim = 96 << 10
			}
			nrand := 16
			if thorough {
				nrand = 300
			}
			for i := 0; i < nrand; i++ {
				budgets = append(budgets, int64(rb.Intn(int(lim)+1)))
			}
		}
		var faults []Fault
		faults = append(faults, Fault{Kind: "nodir"}, Fault{Kind: "isdir"}, Fault{Kind: "devfull"}, Fault{Kind: "vanish"}, Fault{Kind: "emfile"}, Fault{Kind: "fifo"}, Fault{Kind: "symloop"})
		for _, b := range budgets {
			faults = append(faults, Fault{Kind: "fsize", Budget: b})
		}
		for fi, f := range faults {
			faultPoints++
			r := root.Fork()
			var ss []Sched
			if thorough && !every {
				ss = scheds
			} else {
				ss = []Sched{scheds[(fi+id)%len(scheds)]}
			}
			for _, s := range ss {
				pl.scenarios = append(pl.scenarios, mk(e, f, s, r))
			}
		}
	}
	// part 1d: every resolution from 2 to 45 cells for a cube and a non-cubic model with
	// the uniform renderer (layer sizes that are and are not multiples of the batch size)
	for cells := 2; cells <= 45; cells++ {
		for _, model := range []string{"cube", "sphere-box"} {
			if !thorough && model != "cube" && cells%3 != 0 {
				continue
			}
			r := root.Fork()
			j := Job{ID: 1, Kind: "mcu", Sink: pick(r, []string{"tri", "stl"}), Model: model, Cells: cells}
			if cells%5 == 0 {
				j.Model += pick(r, []string{"@far", "@huge", "@tiny"})
			}
			pl.scenarios = append(pl.scenarios, &Scenario{Prop: "C12", Family: "fault", Seed: r.Uint64(), Groups: [][]Job{{j}},
				Sites: map[string]uint32{"close": 1, "mc.sent": 1, "cons.tri": 1, "cons.stl": 1, "cons.stl.flush": 1}, Sched: Sched{Policy: "fifo"}, Env: genEnv(r), Note: "resolution-sweep"})
		}
	}
	// part 1e: renderers that emit non-finite or absurdly large coordinates (a model
	// with a singularity): every entry must still return, with and without disk faults
	for _, sink := range []string{"tri", "stl", "3mf", "dxf", "svg"} {
		for _, fk := range []Fault{{}, {Kind: "devfull"}, {Kind: "fsize", Budget: 8192}} {
			if sink == "tri" && fk.Kind != "" {
				continue
			}
			r := root.Fork()
			kind := "script3"
			if sink == "dxf" || sink == "svg" {
				kind = "script2"
			}
			n := 400 + r.Intn(800)
			j := Job{ID: 1, Kind: kind, Sink: sink, N: n, Batches: genPartition(r, n, 1+r.Intn(2), pick(r, []string{"small", "fives", "mixed"})), Coords: "nonfinite", CoordSeed: r.Uint64(), Fault: fk}
			pl.scenarios = append(pl.scenarios, &Scenario{Prop: "C12", Family: "fault", Seed: r.Uint64(), Groups: [][]Job{{j}}, Sites: activeSites(r, sink, true), Env: genEnv(r),
				Sched: genSched(r, []string{"consumer", "renderer"}), Note: "nonfinite"})
		}
	}
	// part 1f: the other renderers over a range of resolutions and models (every
	// renderer must return for every resolution, including degenerate ones)
	{
		type sw struct {
			kind   string
			models []string
			cells  []int
			sink   string
		}
		rng := func(a, b, step int) []int {
			var out []int
			for c := a; c <= b; c += step {
				out = append(out, c)
			}
			return out
		}
		step := 3
		if thorough {
			step = 1
		}
		sweeps := []sw{
			{"mco", []string{"cube", "csg", "sphere-box"}, rng(1, 32, step), "tri"},
			{"msu", model2Names, rng(1, 64, 2*step), "svg"},
			{"msq", model2Names, rng(1, 64, 2*step), "dxf"},
			{"dc2", model2Names, rng(1, 40, 2*step), "svg"},
			{"dc3v2", []string{"sphere-box", "csg", "cube"}, rng(1, 9, step), "tri"},
			{"dc3v1", []string{"sphere-box", "cube"}, rng(1, 7, step), "tri"},
		}
		// every renderer with every placement of a model, at one resolution
		for _, s := range sweeps {
			for _, place := range []string{"@far", "@huge", "@tiny"} {
				r := root.Fork()
				c := s.cells[len(s.cells)/2]
				j := Job{ID: 1, Kind: s.kind, Sink: s.sink, Model: s.models[0] + place, Cells: c}
				sites := map[string]uint32{"close": 1, "go.start": 1, "auto": 4}
				for _, hs := range sinkSites(s.sink) {
					sites[hs] = 1
				}
				pl.scenarios = append(pl.scenarios, &Scenario{Prop: "C12", Family: "fault", Seed: r.Uint64(), Groups: [][]Job{{j}},
					Sites: sites, Sched: Sched{Policy: "fifo"}, Env: genEnv(r), Note: "resolution-sweep"})
			}
		}
		for _, s := range sweeps {
			for _, c := range s.cells {
				r := root.Fork()
				j := Job{ID: 1, Kind: s.kind, Sink: s.sink, Model: pick(r, s.models), Cells: c}
				if r.Intn(3) == 0 {
					j.Model += pick(r, []string{"@far", "@huge", "@tiny"})
				}
				sites := map[string]uint32{"close": 1, "go.start": 1, "auto": 4}
				for _, hs := range sinkSites(s.sink) {
					sites[hs] = 1
				}
				pl.scenarios = append(pl.scenarios, &Scenario{Prop: "C12", Family: "fault", Seed: r.Uint64(), Groups: [][]Job{{j}},
					Sites: sites, Sched: Sched{Policy: pick(r, []string{"fifo", "uniform"}), Seed: r.Uint64()}, Env: genEnv(r), Note: "resolution-sweep"})
			}
		}
	}
	// part 1g: resolutions people render at (100..1024 cells), each as the first render
	// of its process; thresholds on the number of samples per line or layer, and
	// pools that only an earlier render would have started
	{
		type hr struct {
			kind   string
			models []string
			cells  []int
			sinks  []string
		}
		sets := []hr{
			{"msu", model2Names, []int{128, 256, 511, 512, 600, 1024}, []string{"dxf", "svg"}},
			{"msq", append([]string{"washer", "grid2d"}, model2Names...), []int{128, 256, 512, 1024}, []string{"dxf", "svg"}},
			{"dc2", model2Names, []int{100, 200, 400}, []string{"dxf", "svg"}},
			{"mco", []string{"cube", "csg", "sphere-box"}, []int{64, 100, 128, 200}, []string{"tri", "stl", "3mf"}},
			{"mcu", []string{"cube", "csg", "sphere-box"}, []int{64, 100, 128}, []string{"tri", "stl", "3mf"}},
			// space-filling infill: nothing can be pruned, every queue and cache fills up
			{"mco", []string{"cat:x-gyroid-infill"}, []int{31, 60, 63, 126}, []string{"tri", "stl"}},
			{"mcu", []string{"cat:x-gyroid-infill"}, []int{63}, []string{"tri"}},
			{"dc3v2", []string{"cat:x-gyroid-infill"}, []int{24}, []string{"tri"}},
		}
		reps := 1
		if thorough {
			reps = 4
		}
		for _, s := range sets {
			for _, c := range s.cells {
				for k := 0; k < reps; k++ {
					r := root.Fork()
					sink := pick(r, s.sinks)
					j := Job{ID: 1, Kind: s.kind, Sink: sink, Model: pick(r, s.models), Cells: c}
					sites := map[string]uint32{"close": 1, "go.start": 1}
					pl.scenarios = append(pl.scenarios, &Scenario{Prop: "C12", Family: "fault", Seed: r.Uint64(), Groups: [][]Job{{j}},
						Sites: sites, Sched: Sched{Policy: "fifo"}, Env: genEnv(r), Note: "resolution-sweep", StepCap: 4000000})
				}
			}
		}
	}
	// part 1h: a stalled output device in real time (the library has no clock seam): the
	// reader of the pipe is busy for 12 s (thorough: up to 35 s) while the renderer
	// produces more than the pipe holds; every write blocks, none fails
	{
		stalls := []int64{12000}
		if thorough {
			stalls = []int64{12000, 12000, 21000, 35000}
		}
		for i, ms := range stalls {
			r := root.Fork()
			n := 3000 + r.Intn(2000)
			j := Job{ID: 1, Kind: "script3", Sink: "stl", N: n, Batches: genPartition(r, n, 1, pick(r, []string{"fives", "small", "mixed"})), Coords: "index", Fault: Fault{Kind: "fifo", Budget: ms}}
			if i%2 == 1 {
				j = Job{ID: 1, Kind: pick(r, []string{"mco", "mcu"}), Sink: "stl", Model: pick(r, []string{"sphere-box", "csg"}), Cells: 40, Fault: Fault{Kind: "fifo", Budget: ms}}
			}
			pl.scenarios = append(pl.scenarios, &Scenario{Prop: "C12", Family: "fault", Seed: r.Uint64(), Groups: [][]Job{{j}},
				Sites: map[string]uint32{"close": 1, "cons.stl": 1, "cons.stl.flush": 1}, Sched: Sched{Policy: "fifo"}, Env: genEnv(r), Note: "stalled-device", StepCap: 4000000})
		}
	}
	// part 1i: a write failure followed by a renderer that keeps producing for a long
	// time in real time (pauses 7 s / 11 s after its first batch, which is large enough
	// to make the first flush fail): the call must still return
	{
		stalls := []int{11000}
		if thorough {
			stalls = []int{7000, 11000, 11000, 31000}
		}
		for i, ms := range stalls {
			r := root.Fork()
			n := 1500 + r.Intn(1500)
			f := Fault{Kind: "devfull"}
			if i%2 == 1 {
				f = Fault{Kind: "fsize", Budget: int64(4096 * (1 + r.Intn(3)))}
			}
			j := Job{ID: 1, Kind: "script3", Sink: "stl", N: n, Batches: [][]Run{{{400, 1}, {5, (n - 400) / 5}}}, Coords: "index", Fault: f, StallMs: ms}
			if i >= 2 {
				n2 := 600 + r.Intn(400)
				j = Job{ID: 1, Kind: "script2", Sink: pick(r, []string{"dxf", "svg"}), N: n2, Batches: [][]Run{{{300, 1}, {5, (n2 - 300) / 5}}}, Coords: "index", Fault: Fault{Kind: "devfull"}, StallMs: ms}
			}
			pl.scenarios = append(pl.scenarios, &Scenario{Prop: "C12", Family: "fault", Seed: r.Uint64(), Groups: [][]Job{{j}},
				// (no hooks on the writer's side: it must be running, not parked, while the producer pauses)
				Sites: map[string]uint32{"close": 1, "prod": 16}, Sched: Sched{Policy: "fifo"}, Env: genEnv(r), Note: "failure-then-slow-producer", StepCap: 4000000})
		}
	}
	// part 1j: a model object that has been used before the render (an earlier, much finer
	// render or a preview): caches and tables that stop growing, or change their ways, at
	// a limit of 2^16 .. 2^20 / 10^6 entries must not stop the render from returning
	{
		warms := []int{1<<20 + 7, 1<<16 + 7}
		if thorough {
			warms = []int{1<<20 + 7, 1<<16 + 7, 1<<18 + 7, 1000003, 1<<21 + 7, 100003}
		}
		for i, w := range warms {
			for _, e := range []struct{ kind, model, sink string }{{"mcu", "cache-extrude", "stl"}, {"mco", "cache-extrude-rot", "tri"}, {"msq", "cache-poly", "dxf"}} {
				if !thorough && i > 0 && e.kind != "mcu" {
					continue
				}
				r := root.Fork()
				j := Job{ID: 1, Kind: e.kind, Sink: e.sink, Model: e.model, Cells: 10 + r.Intn(8), Warm: w}
				if e.kind == "msq" {
					j.Cells = 40 + r.Intn(40)
				}
				pl.scenarios = append(pl.scenarios, &Scenario{Prop: "C12", Family: "fault", Seed: r.Uint64(), Groups: [][]Job{{j}},
					Sites: map[string]uint32{"close": 1, "go.start": 1, "worker.start": 1}, Sched: Sched{Policy: pick(r, []string{"fifo", "uniform"}), Seed: r.Uint64()}, Env: genEnv(r), Note: "resolution-sweep", StepCap: 4000000})
			}
		}
	}
	// part 1k: the tree-walking 2D renderer and the uniform 3D renderer under processor
	// settings above the number of CPUs (17..20, 33, 65: legal, and what a container
	// with a wrong quota or an explicit GOMAXPROCS gives), with all automatic hooks on
	{
		gmps := []int{17, 18, 19, 20, 33, 65}
		reps := 2
		if thorough {
			reps = 8
		}
		for _, gmp := range gmps {
			for k := 0; k < reps; k++ {
				r := root.Fork()
				j := Job{ID: 1, Kind: pick(r, []string{"msq", "msq", "msq", "mcu", "mco"}), Cells: 24 + r.Intn(40)}
				if j.Kind == "msq" {
					j.Model, j.Sink = pick(r, []string{"washer", "grid2d", "washer", "grid2d", "poly", "gear-ish"}), pick(r, []string{"dxf", "svg"})
				} else {
					j.Model, j.Sink, j.Cells = pick(r, []string{"sphere-box", "csg", "cube"}), pick(r, []string{"tri", "stl"}), 10+r.Intn(8)
				}
				pl.scenarios = append(pl.scenarios, &Scenario{Prop: "C12", Family: "fault", Seed: r.Uint64(), Groups: [][]Job{{j}},
					Sites: map[string]uint32{"close": 1, "go.start": 1, "worker.start": 1, "auto": 1}, Sched: Sched{Policy: pick(r, []string{"uniform", "lifo", "burst"}), Seed: r.Uint64()},
					Env: Env{GOMAXPROCS: gmp, CPUs: 16}, Note: "resolution-sweep", StepCap: 4000000})
			}
		}
	}
	// part 1b: a failing sink next to healthy renders in the same process
	// (they share the worker pool and the evaluation channel)
	npairs := 40
	if thorough {
		npairs = 600
	}
	for i := 0; i < npairs; i++ {
		r := root.Fork()
		a := Job{ID: 1, Kind: "mcu", Sink: pick(r, []string{"stl", "3mf"}), Model: pick(r, model3Names), Cells: 7 + r.Intn(6), EvalMod: 16,
			Fault: Fault{Kind: pick(r, []string{"devfull", "nodir", "isdir", "vanish"})}}
		b := Job{ID: 2, Kind: pick(r, []string{"mcu", "mcu", "mco"}), Sink: pick(r, []string{"tri", "stl", "3mf"}), Model: pick(r, model3Names), Cells: 7 + r.Intn(6), EvalMod: 16}
		grp := []Job{a, b}
		if r.Intn(3) == 0 {
			n := 200 + r.Intn(600)
			grp = append(grp, Job{ID: 3, Kind: "script2", Sink: pick(r, []string{"dxf", "svg"}), N: n, Batches: genPartition(r, n, 1+r.Intn(2), "small"), Coords: "index",
				Fault: Fault{Kind: pick(r, []string{"", "devfull", "nodir"})}})
		}
		sites := map[string]uint32{"prod": 1, "close": 1, "write": 4, "eval.pre": 16, "eval.post": 16, "mc.sent": 1, "worker.start": 1, "go.start": 1}
		for _, j := range grp {
			for _, s := range sinkSites(j.Sink) {
				sites[s] = 1
			}
		}
		sc := &Scenario{Prop: "C12", Family: "fault", Seed: r.Uint64(), Groups: [][]Job{grp}, Sites: sites, Env: genEnv(r),
			Sched: genSched(r, []string{"consumer", "renderer", "job:1", "job:2", "evalpost"})}
		if r.Intn(3) == 0 { // and a render after the failure
			sc.Groups = append(sc.Groups, []Job{{ID: 4, Kind: "mcu", Sink: "tri", Model: pick(r, model3Names), Cells: 6, EvalMod: 16}})
		}
		pl.scenarios = append(pl.scenarios, sc)
	}
	// part 1c: a failed render followed by healthy renders into the same format
	for _, sink := range []string{"stl", "3mf", "dxf", "svg"} {
		for _, fk := range []Fault{{Kind: "devfull"}, {Kind: "fsize", Budget: 100}, {Kind: "fsize", Budget: 5000}, {Kind: "vanish"}, {Kind: "nodir"}, {Kind: "isdir"}, {Kind: "fifo"}} {
			r := root.Fork()
			kind := "script3"
			if sink == "dxf" || sink == "svg" {
				kind = "script2"
			}
			n := 200 + r.Intn(800)
			bad := Job{ID: 1, Kind: kind, Sink: sink, N: n, Batches: genPartition(r, n, 1, "fives"), Coords: "index", Fault: fk}
			good := Job{ID: 2, Kind: kind, Sink: sink, N: n / 2, Batches: genPartition(r, n/2, 1, "small"), Coords: "index"}
			real := Job{ID: 3, Kind: "mco", Sink: sink, Model: pick(r, model3Names), Cells: 8}
			if kind == "script2" {
				real = Job{ID: 3, Kind: "msu", Sink: sink, Model: pick(r, model2Names), Cells: 16}
			}
			sites := activeSites(r, sink, true)
			sites["write"] = 8
			sc := &Scenario{Prop: "C12", Family: "fault", Seed: r.Uint64(), Groups: [][]Job{{bad}, {good}, {real}}, Sites: sites, Env: genEnv(r),
				Sched: Sched{Policy: pick(r, []string{"fifo", "uniform"}), Seed: r.Uint64()}}
			pl.scenarios = append(pl.scenarios, sc)
		}
	}
	// part 2: goroutine census over render histories
	histories := 6
	reps := 4
	if thorough {
		histories = 120
	}
	for h := 0; h < histories; h++ {
		r := root.Fork()
		if thorough {
			reps = 4 + r.Intn(12)
			if h == 0 {
				reps = 50
			}
		}
		// every history covers every sink and both renderer families; the order
		// and the models are seeded
		block := []Job{
			{Kind: "mcu", Sink: pick(r, []string{"tri", "stl", "3mf"}), Model: pick(r, model3Names), Cells: 5 + r.Intn(3)},
			{Kind: pick(r, []string{"msu", "msq", "dc2"}), Sink: "dxf", Model: pick(r, model2Names), Cells: 10 + r.Intn(10)},
			{Kind: pick(r, []string{"msu", "msq", "dc2"}), Sink: "svg", Model: pick(r, model2Names), Cells: 10 + r.Intn(10)},
			{Kind: "mco", Sink: pick(r, []string{"stl", "3mf", "tri"}), Model: pick(r, model3Names), Cells: 6 + r.Intn(6)},
			{Kind: pick(r, []string{"dc3v2", "dc3v1"}), Sink: pick(r, []string{"tri", "stl"}), Model: pick(r, []string{"sphere-box", "csg"}), Cells: 4 + r.Intn(4)},
		}
		{
			n := 300 + r.Intn(900)
			j := Job{Kind: "script3", Sink: pick(r, []string{"stl", "3mf"}), N: n, Batches: genPartition(r, n, 1, "fives"), Coords: "index"}
			j.Fault = Fault{Kind: pick(r, []string{"", "nodir", "devfull", "isdir"})}
			block = append(block, j)
			n2 := 100 + r.Intn(400)
			j2 := Job{Kind: "script2", Sink: pick(r, []string{"dxf", "svg"}), N: n2, Batches: genPartition(r, n2, 1, "fives"), Coords: "index"}
			j2.Fault = Fault{Kind: pick(r, []string{"", "nodir", "devfull", "isdir"})}
			block = append(block, j2)
			// renders that fail part-way, for every format (a failing render must not
			// leave anything behind either)
			block = append(block,
				Job{Kind: "script3", Sink: "stl", N: 600, Batches: genPartition(r, 600, 1, "fives"), Coords: "index", Fault: Fault{Kind: "devfull"}},
				Job{Kind: "script3", Sink: "stl", N: 900, Batches: genPartition(r, 900, 1, "small"), Coords: "index", Fault: Fault{Kind: "fsize", Budget: int64(4096 * (1 + r.Intn(8)))}},
				Job{Kind: "script3", Sink: "3mf", N: 500, Batches: genPartition(r, 500, 1, "fives"), Coords: "index", Fault: Fault{Kind: pick(r, []string{"devfull", "vanish"})}},
				Job{Kind: "script2", Sink: "dxf", N: 400, Batches: genPartition(r, 400, 1, "fives"), Coords: "index", Fault: Fault{Kind: "devfull"}},
				Job{Kind: "script2", Sink: "svg", N: 400, Batches: genPartition(r, 400, 1, "fives"), Coords: "index", Fault: Fault{Kind: "devfull"}},
				Job{Kind: "mco", Sink: "stl", Model: pick(r, model3Names), Cells: 12, Fault: Fault{Kind: "devfull"}})
			// renders that produce no output at all
			block = append(block, Job{Kind: "script3", Sink: pick(r, []string{"tri", "stl", "3mf"}), N: 0, Batches: [][]Run{{}}, Coords: "index"})
			block = append(block, Job{Kind: "script2", Sink: pick(r, []string{"dxf", "svg"}), N: 0, Batches: [][]Run{{}}, Coords: "index"})
		}
		for i := len(block) - 1; i > 0; i-- { // seeded order
			k := r.Intn(i + 1)
			block[i], block[k] = block[k], block[i]
		}
		if h%2 == 1 { // shorter histories too
			block = block[:2+r.Intn(3)]
			block[0] = Job{Kind: "mcu", Sink: "tri", Model: pick(r, model3Names), Cells: 5 + r.Intn(3)}
		}
		sc := &Scenario{Prop: "C12", Family: "census", Seed: r.Uint64(), Census: true, Env: genEnv(r),
			Sched: Sched{Policy: pick(r, []string{"fifo", "uniform"}), Seed: r.Uint64()},
			Sites: map[string]uint32{"close": 1, "write": 64, "prod": 16}, Note: fmt.Sprintf("period=%d reps=%d", len(block), reps)}
		jid := 0
		for rep := 0; rep < reps; rep++ {
			for _, b := range block {
				jid++
				b.ID = jid
				sc.Groups = append(sc.Groups, []Job{b})
			}
		}
		pl.scenarios = append(pl.scenarios, sc)
	}
	// part 2b: histories that alternate resolutions of one renderer kind (worker
	// pools, caches and buffers sized by an earlier render)
	mixed := 4
	if thorough {
		mixed = 60
	}
	for h := 0; h < mixed; h++ {
		r := root.Fork()
		kind := []string{"mcu", "mcu", "mco", "msq", "msu", "dc2"}[h%6]
		var block []Job
		for k := 0; k < 2+r.Intn(3); k++ {
			cells := pick(r, []int{4 + r.Intn(5), 14 + r.Intn(12), 30 + r.Intn(16)})
			if k == 0 {
				cells = 4 + r.Intn(4)
			}
			if k == 1 {
				cells = 24 + r.Intn(20)
			}
			j := Job{Kind: kind, Cells: cells}
			if kind == "mcu" || kind == "mco" {
				j.Model = pick(r, model3Names)
				j.Sink = pick(r, []string{"tri", "stl", "3mf"})
			} else {
				j.Model = pick(r, model2Names)
				j.Sink = pick(r, []string{"dxf", "svg"})
			}
			block = append(block, j)
		}
		nrep := 4
		if thorough {
			nrep = 4 + r.Intn(8)
		}
		sc := &Scenario{Prop: "C12", Family: "census", Seed: r.Uint64(), Census: true, Env: genEnv(r),
			Sched: Sched{Policy: pick(r, []string{"fifo", "uniform"}), Seed: r.Uint64()},
			Sites: map[string]uint32{"close": 1, "write": 64, "prod": 16}, Note: fmt.Sprintf("mixed-resolution period=%d reps=%d", len(block), nrep)}
		jid := 0
		for rep := 0; rep < nrep; rep++ {
			for _, b := range block {
				jid++
				b.ID = jid
				sc.Groups = append(sc.Groups, []Job{b})
			}
		}
		pl.scenarios = append(pl.scenarios, sc)
	}
	histories += mixed
	pl.extra = map[string]any{"fault_points_enumerated": faultPoints, "render_histories": histories}
	pl.rule = "part 1: for every render-to-file entry (ToSTL/To3MF/ToDXF/ToSVG) x renderer (scripted; uniform and octree marching cubes; uniform/quadtree marching squares; 2D dual contouring) x fault (create fails: missing directory, path is a directory, path is a symbolic link to itself or one of a pair pointing at each other; /dev/full; the file is unlinked right after it was created; the process is out of file descriptors (EMFILE); the path is a named pipe with a reader (writes succeed, seek and truncate do not), also with a reader that is busy for 12..35 s of real time so that every write stalls; a failed flush followed by a renderer that pauses 7..31 s of real time and then goes on producing; RLIMIT_FSIZE budget n for every 4096-byte flush index +-1 byte, the header offsets 0/1/83/84/85, size-1/-84/-85, and the unreached control budget; thorough adds every byte offset for small files) x schedule (fifo, uniform, starve(consumer), starve(renderer)); oracle = the call returns (simulator deadlock verdict otherwise). part 2: histories that repeat a block of renders (all sinks and renderer families, failing renders included; or one renderer kind at alternating coarse and fine resolutions) R>=4 times; oracle = goroutine count at quiescence after repetition R <= after repetition 2. Non-trivial = the injected fault actually fired (or, for census episodes, a uniform render ran); distinct = (entry, fault kind, budget, policy)."
	pl.nontriv = func(o *runOut) (bool, string) {
		if o.res == nil {
			return false, ""
		}
		if o.sc.Census {
			return true, fmt.Sprintf("census/%d", o.sc.Seed)
		}
		j := &o.sc.Groups[0][0]
		if o.sc.Note == "nonfinite" {
			return true, fmt.Sprintf("nonfinite/%s/%s", j.Sink, j.Fault.Kind)
		}
		if o.sc.Note == "resolution-sweep" {
			return true, fmt.Sprintf("sweep/%s/%d", j.Model, j.Cells)
		}
		if len(o.sc.Groups[0]) > 1 {
			return true, fmt.Sprintf("pair/%d", o.sc.Seed)
		}
		key := fmt.Sprintf("%s/%s/%s/%d/%s/%s/%d", j.Kind, j.Sink, j.Model, j.N, j.Fault.Kind, o.sc.Sched.Policy+o.sc.Sched.Victim, j.Fault.Budget)
		fired := false
		for _, jr := range o.res.Jobs {
			fired = fired || jr.FaultFired
		}
		return fired, key
	}
	pl.assume = []string{
		"the kernel is the disk: RLIMIT_FSIZE with SIGXFSZ ignored gives a partial write up to byte n and EFBIG afterwards; /dev/full gives ENOSPC on every write; faults that need a lying file descriptor (short write reported as success, failing Close/Seek) are out of reach",
		"a deadlock verdict is a fact about the goroutine states in a stop-the-world snapshot (top-level call not returned, nothing parked, every goroutine in a channel/mutex/WaitGroup wait), not a timeout",
	}
	pl.real = []string{"render.ToSTL/To3MF/ToDXF/ToSVG, their writer goroutines, bufio/os.File/go3mf/yofu-dxf/svgo write paths", "Linux VFS error paths (EFBIG, ENOSPC, ENOENT, EISDIR)", "real renderers incl. the process-global worker pool"}
	pl.stubs = []string{"scripted producers in part of the episodes", "goroutine scheduling choice (simulator)"}
	return pl
}

func thinInt64(a []int64, k int) []int64 {
	var out []int64
	for i, v := range a {
		if i%k == 0 || v < 200 {
			out = append(out, v)
		}
	}
	return out
}
