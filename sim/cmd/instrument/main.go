// instrument: inserts scheduling hooks before every synchronisation operation
// of the sdfx packages, into copies of the source files, and writes a
// `go build -overlay` file that maps the originals to the copies. /repo is
// never modified.
//
//	instrument -repo /repo -out <dir>     writes <dir>/overlay.json and <dir>/src/...
//
// A hook is the statement `simYield("auto", <id>)` (id = hash of file:line),
// inserted before a statement that directly contains one of:
//
//	x.Lock() x.Unlock() x.RLock() x.RUnlock() x.Wait() x.Done() x.Signal() x.Broadcast()
//	wg.Add(n)  once.Do(f)  atomic.F(...)  f.Load()/Store()/Add()/Swap()/CompareAndSwap() on atomic fields
//	ch <- v    close(ch)   select { ... }
//
//	<-ch (receive)
//
// as the first statement of every `go func() { ... }()` literal, and as the first
// statement of the body of a `for ... range ch` loop over a name that is declared
// as a channel or assigned from make(chan ...). Deferred calls are not
// instrumented; a statement that already follows or is a hook is left alone. The analysis is syntactic (no type checking), so
// it also works on code that was just edited.
package main

import (
	"encoding/json"
	"flag"
	"fmt"
	"go/ast"
	"go/format"
	"go/parser"
	"go/token"
	"hash/fnv"
	"os"
	"path/filepath"
	"sort"
	"strings"
)

var syncMethods = map[string]bool{"Lock": true, "Unlock": true, "RLock": true, "RUnlock": true, "Signal": true, "Broadcast": true}
var niladicSync = map[string]bool{"Wait": true, "Done": true}
var atomicMethods = map[string]bool{"Load": true, "Store": true, "Add": true, "Swap": true, "CompareAndSwap": true, "And": true, "Or": true}

type pkgInfo struct {
	dir          string
	atomicFields map[string]bool // field / variable names declared with an atomic.* type
	chanNames    map[string]bool // names declared with a channel type or assigned from make(chan ...)
	hasSimYield  bool
}

func isChanType(e ast.Expr) bool {
	switch t := e.(type) {
	case *ast.ChanType:
		return true
	case *ast.ParenExpr:
		return isChanType(t.X)
	}
	return false
}

func isMakeChan(e ast.Expr) bool {
	c, ok := e.(*ast.CallExpr)
	if !ok || len(c.Args) == 0 {
		return false
	}
	id, ok := c.Fun.(*ast.Ident)
	return ok && id.Name == "make" && isChanType(c.Args[0])
}

// collectChans records every name that is (by declaration or by make) a channel.
func (p *pkgInfo) collectChans(f *ast.File) {
	ast.Inspect(f, func(x ast.Node) bool {
		switch t := x.(type) {
		case *ast.Field:
			if isChanType(t.Type) {
				for _, nm := range t.Names {
					p.chanNames[nm.Name] = true
				}
			}
		case *ast.ValueSpec:
			if t.Type != nil && isChanType(t.Type) {
				for _, nm := range t.Names {
					p.chanNames[nm.Name] = true
				}
			}
			for i, v := range t.Values {
				if isMakeChan(v) && i < len(t.Names) {
					p.chanNames[t.Names[i].Name] = true
				}
			}
		case *ast.AssignStmt:
			for i, v := range t.Rhs {
				if isMakeChan(v) && i < len(t.Lhs) {
					if n := lastIdent(t.Lhs[i]); n != "" {
						p.chanNames[n] = true
					}
				}
			}
		}
		return true
	})
}

func lastIdent(e ast.Expr) string {
	switch t := e.(type) {
	case *ast.Ident:
		return t.Name
	case *ast.SelectorExpr:
		return t.Sel.Name
	case *ast.StarExpr:
		return lastIdent(t.X)
	case *ast.ParenExpr:
		return lastIdent(t.X)
	case *ast.IndexExpr:
		return lastIdent(t.X)
	case *ast.UnaryExpr:
		return lastIdent(t.X)
	}
	return ""
}

func isAtomicType(e ast.Expr) bool {
	switch t := e.(type) {
	case *ast.SelectorExpr:
		if id, ok := t.X.(*ast.Ident); ok && id.Name == "atomic" {
			return true
		}
	case *ast.IndexExpr: // atomic.Pointer[T]
		return isAtomicType(t.X)
	case *ast.StarExpr:
		return isAtomicType(t.X)
	}
	return false
}

// isSyncCall reports whether a call expression is a synchronisation operation.
func (p *pkgInfo) isSyncCall(c *ast.CallExpr, imports map[string]bool) bool {
	switch f := c.Fun.(type) {
	case *ast.Ident:
		return f.Name == "close" && len(c.Args) == 1
	case *ast.SelectorExpr:
		name := f.Sel.Name
		if id, ok := f.X.(*ast.Ident); ok && imports[id.Name] {
			return id.Name == "atomic" // atomic.AddInt64(...), not pkg.Func in general
		}
		recv := strings.ToLower(lastIdent(f.X))
		switch {
		case syncMethods[name] && len(c.Args) == 0:
			return true
		case niladicSync[name] && len(c.Args) == 0:
			return true
		case name == "Add" && len(c.Args) == 1 && (strings.Contains(recv, "wg") || strings.Contains(recv, "waitgroup") || p.atomicFields[lastIdent(f.X)]):
			return true
		case name == "Do" && len(c.Args) == 1 && strings.Contains(recv, "once"):
			return true
		case atomicMethods[name] && p.atomicFields[lastIdent(f.X)]:
			return true
		}
	}
	return false
}

// directSync: does the statement contain a sync operation outside nested
// blocks and function literals?
func (p *pkgInfo) directSync(s ast.Stmt, imports map[string]bool) bool {
	found := false
	var inspectExpr func(n ast.Node)
	inspectExpr = func(n ast.Node) {
		if n == nil {
			return
		}
		ast.Inspect(n, func(x ast.Node) bool {
			switch t := x.(type) {
			case *ast.FuncLit, *ast.BlockStmt:
				return false
			case *ast.CallExpr:
				if p.isSyncCall(t, imports) {
					found = true
				}
			case *ast.UnaryExpr:
				if t.Op == token.ARROW { // channel receive
					found = true
				}
			}
			return !found
		})
	}
	switch t := s.(type) {
	case *ast.SendStmt:
		return true
	case *ast.SelectStmt:
		return true
	case *ast.DeferStmt, *ast.GoStmt:
		return false
	case *ast.ExprStmt:
		inspectExpr(t.X)
	case *ast.AssignStmt:
		for _, e := range t.Rhs {
			inspectExpr(e)
		}
	case *ast.ReturnStmt:
		for _, e := range t.Results {
			inspectExpr(e)
		}
	case *ast.IfStmt:
		inspectExpr(t.Init)
		inspectExpr(t.Cond)
	case *ast.ForStmt:
		inspectExpr(t.Init)
		inspectExpr(t.Cond)
	case *ast.SwitchStmt:
		inspectExpr(t.Init)
		inspectExpr(t.Tag)
	case *ast.DeclStmt:
		inspectExpr(t.Decl)
	case *ast.IncDecStmt, *ast.LabeledStmt:
	}
	return found
}

func hookStmt(fset *token.FileSet, pos token.Pos, rel string) ast.Stmt {
	h := fnv.New64a()
	fmt.Fprintf(h, "%s:%d", rel, fset.Position(pos).Line)
	id := h.Sum64() >> 1
	return &ast.ExprStmt{X: &ast.CallExpr{Fun: ast.NewIdent("simYield"),
		Args: []ast.Expr{&ast.BasicLit{Kind: token.STRING, Value: `"auto"`}, &ast.BasicLit{Kind: token.INT, Value: fmt.Sprint(id)}}}}
}

func isHook(s ast.Stmt) bool {
	es, ok := s.(*ast.ExprStmt)
	if !ok {
		return false
	}
	c, ok := es.X.(*ast.CallExpr)
	if !ok {
		return false
	}
	id, ok := c.Fun.(*ast.Ident)
	return ok && id.Name == "simYield"
}

func (p *pkgInfo) instrumentList(fset *token.FileSet, list []ast.Stmt, rel string, imports map[string]bool, n *int) []ast.Stmt {
	var out []ast.Stmt
	for i, s := range list {
		prevHook := i > 0 && isHook(list[i-1])
		if !isHook(s) && !prevHook && p.directSync(s, imports) {
			out = append(out, hookStmt(fset, s.Pos(), rel))
			*n++
		}
		out = append(out, s)
	}
	return out
}

func (p *pkgInfo) instrumentFile(fset *token.FileSet, f *ast.File, rel string) int {
	imports := map[string]bool{}
	for _, im := range f.Imports {
		path := strings.Trim(im.Path.Value, `"`)
		name := path[strings.LastIndex(path, "/")+1:]
		if im.Name != nil {
			name = im.Name.Name
		}
		imports[name] = true
	}
	n := 0
	ast.Inspect(f, func(x ast.Node) bool {
		switch t := x.(type) {
		case *ast.FuncDecl:
			if t.Name.Name == "simYield" {
				return false
			}
		case *ast.BlockStmt:
			t.List = p.instrumentList(fset, t.List, rel, imports, &n)
		case *ast.CaseClause:
			t.Body = p.instrumentList(fset, t.Body, rel, imports, &n)
		case *ast.CommClause:
			t.Body = p.instrumentList(fset, t.Body, rel, imports, &n)
		case *ast.RangeStmt:
			if p.chanNames[lastIdent(t.X)] && t.Body != nil {
				if len(t.Body.List) == 0 || !isHook(t.Body.List[0]) {
					t.Body.List = append([]ast.Stmt{hookStmt(fset, t.Body.Pos(), rel+":range")}, t.Body.List...)
					n++
				}
			}
		case *ast.GoStmt:
			if fl, ok := t.Call.Fun.(*ast.FuncLit); ok && fl.Body != nil {
				if len(fl.Body.List) == 0 || !isHook(fl.Body.List[0]) {
					fl.Body.List = append([]ast.Stmt{hookStmt(fset, fl.Body.Pos(), rel+":go")}, fl.Body.List...)
					n++
				}
			}
		}
		return true
	})
	return n
}

func main() {
	repo := flag.String("repo", "/repo", "sdfx source tree")
	out := flag.String("out", "", "output directory")
	flag.Parse()
	if *out == "" {
		fmt.Fprintln(os.Stderr, "instrument: -out required")
		os.Exit(2)
	}
	pkgs := []string{"sdf", "render", "render/dc", "obj"}
	overlay := map[string]string{}
	total := 0
	var report []string
	for _, pk := range pkgs {
		dir := filepath.Join(*repo, pk)
		fset := token.NewFileSet()
		parsed, err := parser.ParseDir(fset, dir, func(fi os.FileInfo) bool { return !strings.HasSuffix(fi.Name(), "_test.go") }, parser.ParseComments)
		if err != nil {
			fmt.Fprintln(os.Stderr, "instrument: parse", pk, err)
			os.Exit(1)
		}
		info := &pkgInfo{dir: dir, atomicFields: map[string]bool{}, chanNames: map[string]bool{}}
		var pkgName string
		for name, p := range parsed {
			if strings.HasSuffix(name, "_test") {
				continue
			}
			pkgName = name
			for _, f := range p.Files {
				info.collectChans(f)
				ast.Inspect(f, func(x ast.Node) bool {
					switch t := x.(type) {
					case *ast.Field:
						if isAtomicType(t.Type) {
							for _, nm := range t.Names {
								info.atomicFields[nm.Name] = true
							}
						}
					case *ast.ValueSpec:
						if t.Type != nil && isAtomicType(t.Type) {
							for _, nm := range t.Names {
								info.atomicFields[nm.Name] = true
							}
						}
					case *ast.FuncDecl:
						if t.Name.Name == "simYield" && t.Recv == nil {
							info.hasSimYield = true
						}
					}
					return true
				})
			}
		}
		for _, p := range parsed {
			var names []string
			for fn := range p.Files {
				names = append(names, fn)
			}
			sort.Strings(names)
			for _, fn := range names {
				f := p.Files[fn]
				if strings.HasPrefix(filepath.Base(fn), "verif_") {
					continue
				}
				rel, _ := filepath.Rel(*repo, fn)
				n := info.instrumentFile(fset, f, rel)
				if n == 0 {
					continue
				}
				dst := filepath.Join(*out, "src", rel)
				os.MkdirAll(filepath.Dir(dst), 0o755)
				w, err := os.Create(dst)
				if err != nil {
					fmt.Fprintln(os.Stderr, "instrument:", err)
					os.Exit(1)
				}
				if err := format.Node(w, fset, f); err != nil {
					fmt.Fprintln(os.Stderr, "instrument: print", rel, err)
					os.Exit(1)
				}
				w.Close()
				overlay[fn] = dst
				total += n
				report = append(report, fmt.Sprintf("%s:%d", rel, n))
			}
		}
		if !info.hasSimYield && pkgName != "" {
			// the package has no hook function of its own: route through sdf's
			dst := filepath.Join(*out, "src", pk, "verif_auto.go")
			os.MkdirAll(filepath.Dir(dst), 0o755)
			src := "//go:build verif\n\npackage " + pkgName + "\n\nimport \"github.com/deadsy/sdfx/sdf\"\n\nfunc simYield(site string, key uint64) {\n\tif f := sdf.SimYield; f != nil {\n\t\tf(site, key)\n\t}\n}\n"
			os.WriteFile(dst, []byte(src), 0o644)
			overlay[filepath.Join(dir, "verif_auto.go")] = dst
			off := filepath.Join(*out, "src", pk, "verif_auto_off.go")
			os.WriteFile(off, []byte("//go:build !verif\n\npackage "+pkgName+"\n\nfunc simYield(site string, key uint64) {}\n"), 0o644)
			overlay[filepath.Join(dir, "verif_auto_off.go")] = off
		}
	}
	b, _ := json.MarshalIndent(map[string]any{"Replace": overlay}, "", " ")
	if err := os.WriteFile(filepath.Join(*out, "overlay.json"), b, 0o644); err != nil {
		fmt.Fprintln(os.Stderr, "instrument:", err)
		os.Exit(1)
	}
	sort.Strings(report)
	fmt.Printf("instrument: %d hooks in %d files: %s\n", total, len(report), strings.Join(report, " "))
}
