// Package simcore is a seeded cooperative scheduler for real goroutines.
//
// Library goroutines are real; what is simulated is the choice of who runs.
// Every seam calls Yield: the goroutine registers a label and blocks on a
// private gate. The scheduler goroutine waits until every other goroutine is
// in a stable user-level wait state (quiescence, decided from a
// runtime.Stack snapshot), sorts the parked labels, lets the schedule policy
// pick one and opens its gate. One seed => one exactly repeatable execution.
//
// Parking is invisible to the race detector (see race_on.go): a goroutine
// parks between runtime.RaceDisable and runtime.RaceEnable and touches
// simulator state only from //go:norace functions in that window, so the
// hand-over through the scheduler creates no happens-before edge and
// ThreadSanitizer still reports program races between goroutines that the
// simulator ran strictly one after the other.
package simcore

import (
	"os"
	"runtime"
	"sort"
	"strconv"
	"sync"
	"sync/atomic"
	"time"
)

// Site identifies a yield site class.
type Site uint16

// Label identifies a parked goroutine independently of goroutine identity.
type Label struct {
	Site Site
	Job  uint32
	A, B uint64
}

func labelLess(x, y Label) bool {
	if x.Site != y.Site {
		return x.Site < y.Site
	}
	if x.Job != y.Job {
		return x.Job < y.Job
	}
	if x.A != y.A {
		return x.A < y.A
	}
	return x.B < y.B
}

type parkedEntry struct {
	lab  Label
	gate *sync.Mutex
}

// Ctx is the per-goroutine context used to label yields coming from library
// hooks that know nothing about jobs.
type Ctx struct {
	Job uint32
	Sub uint64
	Set bool
}

const tableCap = 1 << 14

type ctxEntry struct {
	id uint64
	c  Ctx
}

//go:norace
func (s *Sim) ctxGet(id uint64) (Ctx, bool) {
	for i := range s.ctx {
		if s.ctx[i].id == id {
			return s.ctx[i].c, true
		}
	}
	return Ctx{}, false
}

//go:norace
func (s *Sim) ctxSet(id uint64, c Ctx) {
	for i := range s.ctx {
		if s.ctx[i].id == id {
			s.ctx[i].c = c
			return
		}
	}
	if len(s.ctx) == cap(s.ctx) {
		panic("simcore: context table full")
	}
	s.ctx = s.ctx[:len(s.ctx)+1]
	s.ctx[len(s.ctx)-1] = ctxEntry{id, c}
}

//go:norace
func (s *Sim) ctxDel(id uint64) {
	for i := range s.ctx {
		if s.ctx[i].id == id {
			s.ctx[i] = s.ctx[len(s.ctx)-1]
			s.ctx = s.ctx[:len(s.ctx)-1]
			return
		}
	}
}

// Verdict of a simulated run.
type Verdict struct {
	Kind      string // "finished", "deadlock", "stepcap", "duplicate-label", "replay-diverged", "watchdog"
	Detail    string
	Blocked   []GoroutineInfo // for deadlock: the goroutines that are stuck
	Steps     int
	TraceHash uint64
}

// Stats collected during a run.
type Stats struct {
	Steps           int
	ChoiceSteps     int            // steps at which >= 2 goroutines were parked
	MaxParked       int            // largest parked set seen
	SitePark        map[Site]int   // how often each site was chosen
	Switches        map[uint32]int // (prev site<<16 | next site) -> count
	StallSteps      int            // steps at which a starved victim was parked and passed over
	Snapshots       int
	SnapshotRetry   int
	MaxGoroutines   int
	QuiesceNanos    int64
	ChoicesTaken    []int // index chosen at every step (into sorted parked set)
	ParkedSizes     []int
	RecordChoices   bool
	DistinctLabels  int
	DuplicateLabels int
}

// Sim is one simulated execution.
type Sim struct {
	mu sync.Mutex
	// Fixed-capacity tables touched by parked goroutines. No maps and no
	// append: runtime map and growslice code reports its accesses to the race
	// detector even when the caller is //go:norace.
	parked []parkedEntry // len <= tableCap, never reallocated
	ctx    []ctxEntry    // goroutine id -> context

	live       atomic.Int64 // top-level goroutines not yet returned
	panics     []string
	siteOn     [256]bool
	siteMod    [256]uint32 // park only when hash%mod==0 (0/1 => always)
	DupOK      [256]bool   // sites at which identical labels are tolerated
	Policy     Policy
	StepCap    int
	Deadline   time.Time
	SleepBound time.Duration // a library goroutine asleep in a retry loop for this long counts as never returning (0 = never)
	StallAfter time.Duration // run the livelock detector when nothing has quiesced for this long (0 = never)
	SpinCPU    time.Duration // processor time the process must burn without progress before a spin is called a livelock (0 = at once)
	Stats      Stats
	hash       uint64
	lastSite   Site
	selfID     uint64
	seen       map[Label]struct{}
}

var cur atomic.Pointer[Sim]

// New creates a simulator; Install makes it the process-wide current one.
func New(policy Policy, stepCap int) *Sim {
	s := &Sim{Policy: policy, StepCap: stepCap, hash: 1469598103934665603}
	s.selfID = goid() // the goroutine that creates the simulator is the scheduler
	s.parked = make([]parkedEntry, 0, tableCap)
	s.ctx = make([]ctxEntry, 0, tableCap)
	s.Stats.SitePark = map[Site]int{}
	s.Stats.Switches = map[uint32]int{}
	s.seen = map[Label]struct{}{}
	for i := range s.siteOn {
		s.siteOn[i] = true
	}
	return s
}

// Install makes s the current simulator (nil uninstalls).
func Install(s *Sim) { cur.Store(s) }

// Current returns the installed simulator.
func Current() *Sim { return cur.Load() }

// SetSite enables/disables a yield site and sets its sub-sampling modulus.
func (s *Sim) SetSite(site Site, on bool, mod uint32) {
	s.siteOn[site&255] = on
	s.siteMod[site&255] = mod
}

// SiteActive reports whether a site parks at all in this episode.
func (s *Sim) SiteActive(site Site) bool { return s.siteOn[site&255] }

// Yield parks the calling goroutine until the scheduler picks its label.
//
//go:norace
func Yield(l Label) {
	s := cur.Load()
	if s == nil {
		return
	}
	s.yield(l)
}

//go:norace
func (s *Sim) yield(l Label) {
	if !s.siteOn[l.Site&255] {
		return
	}
	if goid() == s.selfID {
		return // the scheduler goroutine itself (model construction evaluating a wrapped leaf)
	}
	if m := s.siteMod[l.Site&255]; m > 1 {
		if uint32(mix(l.A^l.B*0x9e3779b97f4a7c15)>>33)%m != 0 {
			return
		}
	}
	raceDisable()
	g := new(sync.Mutex)
	g.Lock()
	s.mu.Lock()
	if len(s.parked) == cap(s.parked) {
		panic("simcore: parked table full")
	}
	s.parked = s.parked[:len(s.parked)+1]
	s.parked[len(s.parked)-1] = parkedEntry{l, g}
	s.mu.Unlock()
	parkOnGate(g)
	raceEnable()
}

// parkOnGate is kept out of line so that the quiescence detector can
// recognise goroutines parked by the simulator from their stack.
//
//go:noinline
//go:norace
func parkOnGate(g *sync.Mutex) {
	g.Lock()
}

// YieldCtx parks with a label built from the calling goroutine's context
// (set by SetCtx, or inherited from the goroutine that created it).
//
//go:norace
func YieldCtx(site Site, key uint64) {
	s := cur.Load()
	if s == nil {
		return
	}
	if !s.siteOn[site&255] {
		return
	}
	c := s.lookupCtx()
	s.yield(Label{Site: site, Job: c.Job, A: c.Sub, B: key})
}

// SetCtx sets the calling goroutine's context and returns the previous one.
//
//go:norace
func SetCtx(c Ctx) Ctx {
	s := cur.Load()
	if s == nil {
		return Ctx{}
	}
	id := goid()
	raceDisable()
	s.mu.Lock()
	old, _ := s.ctxGet(id)
	c.Set = true
	s.ctxSet(id, c)
	s.mu.Unlock()
	raceEnable()
	return old
}

// RestoreCtx puts back a context returned by SetCtx.
//
//go:norace
func RestoreCtx(c Ctx) {
	s := cur.Load()
	if s == nil {
		return
	}
	id := goid()
	raceDisable()
	s.mu.Lock()
	if c.Set {
		s.ctxSet(id, c)
	} else {
		s.ctxDel(id)
	}
	s.mu.Unlock()
	raceEnable()
}

// GetCtx returns the calling goroutine's context (inherited from its creator
// when it has none of its own).
//
//go:norace
func GetCtx() Ctx {
	s := cur.Load()
	if s == nil {
		return Ctx{}
	}
	return s.lookupCtx()
}

//go:norace
func (s *Sim) lookupCtx() Ctx {
	id := goid()
	raceDisable()
	s.mu.Lock()
	c, ok := s.ctxGet(id)
	s.mu.Unlock()
	raceEnable()
	if ok {
		return c
	}
	// inherit from the chain of creators
	chain := creatorChain()
	raceDisable()
	s.mu.Lock()
	for _, p := range chain {
		if pc, ok := s.ctxGet(p); ok {
			c = pc
			break
		}
	}
	c.Set = true
	s.ctxSet(id, c)
	s.mu.Unlock()
	raceEnable()
	return c
}

// Go starts a top-level scripted goroutine belonging to job; the episode is
// finished when all of them have returned. The goroutine starts parked.
func (s *Sim) Go(site Site, job uint32, sub uint64, f func()) {
	s.live.Add(1)
	go func() {
		defer s.live.Add(-1)
		defer func() {
			if r := recover(); r != nil {
				buf := make([]byte, 8192)
				n := runtime.Stack(buf, false)
				s.notePanic(r, buf[:n])
			}
		}()
		SetCtx(Ctx{Job: job, Sub: sub})
		Yield(Label{Site: site, Job: job, A: sub})
		f()
	}()
}

func (s *Sim) notePanic(r any, stack []byte) {
	msg := "panic: "
	switch v := r.(type) {
	case error:
		msg += v.Error()
	case string:
		msg += v
	default:
		msg += "non-string panic value"
	}
	s.mu.Lock()
	s.panics = append(s.panics, msg+"\n"+string(stack))
	s.mu.Unlock()
}

// Panics returns panics recovered on top-level goroutines.
func (s *Sim) Panics() []string {
	s.mu.Lock()
	defer s.mu.Unlock()
	return append([]string(nil), s.panics...)
}

// Live is the number of top-level goroutines still running.
func (s *Sim) Live() int64 { return s.live.Load() }

func mix(x uint64) uint64 {
	x ^= x >> 30
	x *= 0xbf58476d1ce4e5b9
	x ^= x >> 27
	x *= 0x94d049bb133111eb
	x ^= x >> 31
	return x
}

// Mix is exported for label construction.
func Mix(x uint64) uint64 { return mix(x) }

func (s *Sim) fold(v uint64) {
	s.hash ^= v
	s.hash *= 1099511628211
	s.hash = mix(s.hash)
}

// Run drives the simulation until every top-level goroutine has returned and
// nothing is parked (finished), or nothing can run (deadlock), or a bound
// is hit. It must be called from the goroutine that owns the simulator.
// traceSteps: VERIF_TRACE=1 prints every scheduling step to stderr (debugging aid;
// never read on a path that draws from the PRNG).
var traceSteps = os.Getenv("VERIF_TRACE") != ""

func (s *Sim) Run() Verdict {
	if id := goid(); id != s.selfID {
		return Verdict{Kind: "harness", Detail: "Run called from a goroutine other than the one that created the simulator"}
	}
	for {
		snap, ok := s.waitQuiescent()
		if !ok && snap.Why == "livelock" {
			var spin []GoroutineInfo
			for _, g := range snap.Others {
				if !g.Stable {
					spin = append(spin, g)
				}
			}
			for _, g := range snap.Others {
				if g.Stable {
					spin = append(spin, g)
				}
			}
			return Verdict{Kind: "livelock", Detail: "a goroutine of the library has been spinning (or asleep in a retry loop) in the same function for the whole observation window; the top-level call has not returned", Steps: s.Stats.Steps, TraceHash: s.hash, Blocked: spin}
		}
		if !ok {
			return Verdict{Kind: "watchdog", Detail: "no quiescence before the wall-clock deadline: " + snap.Why, Steps: s.Stats.Steps, TraceHash: s.hash, Blocked: snap.Others}
		}
		if snap.N > s.Stats.MaxGoroutines {
			s.Stats.MaxGoroutines = snap.N
		}
		entries := s.tableCopy()
		if len(entries) == 0 {
			if s.live.Load() == 0 {
				return Verdict{Kind: "finished", Steps: s.Stats.Steps, TraceHash: s.hash}
			}
			// Before calling it a deadlock, allow for wake-ups the snapshot cannot
			// see (a timer in code that did not have one): wait a little and look
			// again. Nothing in the unchanged library uses timers.
			if !s.confirmStuck(snap) {
				continue
			}
			var stuck []GoroutineInfo
			for _, g := range snap.Others {
				stuck = append(stuck, g)
			}
			return Verdict{Kind: "deadlock", Detail: "top-level call has not returned, nothing is parked and every goroutine is blocked", Blocked: stuck, Steps: s.Stats.Steps, TraceHash: s.hash}
		}
		sort.SliceStable(entries, func(i, j int) bool { return labelLess(entries[i].lab, entries[j].lab) })
		for i := 1; i < len(entries); i++ {
			if entries[i].lab == entries[i-1].lab {
				// Two goroutines at the same site with the same key. For sites
				// in DupOK (evaluation wrappers) this means the program under
				// test evaluates one point twice at the same time: tolerated,
				// counted, and left to the oracles. Anywhere else it is a
				// harness bug.
				if !s.DupOK[entries[i].lab.Site&255] {
					return Verdict{Kind: "duplicate-label", Detail: "two goroutines parked with the same label (harness bug)", Steps: s.Stats.Steps, TraceHash: s.hash}
				}
				s.Stats.DuplicateLabels++
			}
		}
		labs := make([]Label, len(entries))
		for i := range entries {
			labs[i] = entries[i].lab
		}
		idx, diverged := s.Policy.Choose(s.Stats.Steps, labs, &s.Stats)
		if diverged || idx < 0 || idx >= len(entries) {
			return Verdict{Kind: "replay-diverged", Detail: "recorded choice does not fit the parked set", Steps: s.Stats.Steps, TraceHash: s.hash}
		}
		chosen := entries[idx]
		s.tableRemove(chosen.gate)
		if traceSteps {
			os.Stderr.WriteString("step " + itoa(s.Stats.Steps) + ": " + itoa(len(labs)) + " parked -> site " + itoa(int(chosen.lab.Site)) + " job " + itoa(int(chosen.lab.Job)) + " a " + itoa(int(chosen.lab.A%100000)) + " b " + itoa(int(chosen.lab.B%100000)) + "\n")
		}

		// bookkeeping (scheduler goroutine only)
		st := &s.Stats
		st.Steps++
		if len(labs) >= 2 {
			st.ChoiceSteps++
		}
		if len(labs) > st.MaxParked {
			st.MaxParked = len(labs)
		}
		st.SitePark[chosen.lab.Site]++
		st.Switches[uint32(s.lastSite)<<16|uint32(chosen.lab.Site)]++
		s.lastSite = chosen.lab.Site
		if st.RecordChoices {
			st.ChoicesTaken = append(st.ChoicesTaken, idx)
			st.ParkedSizes = append(st.ParkedSizes, len(labs))
		}
		if _, ok := s.seen[chosen.lab]; !ok {
			s.seen[chosen.lab] = struct{}{}
			st.DistinctLabels++
		}
		s.fold(uint64(len(labs)))
		s.fold(uint64(chosen.lab.Site)<<32 | uint64(chosen.lab.Job))
		s.fold(chosen.lab.A)
		s.fold(chosen.lab.B)

		chosen.gate.Unlock()

		if s.StepCap > 0 && st.Steps >= s.StepCap {
			return Verdict{Kind: "stepcap", Detail: "step cap reached", Steps: st.Steps, TraceHash: s.hash}
		}
	}
}

// confirmStuck re-examines a would-be deadlock after a grace period.
func (s *Sim) confirmStuck(first Snapshot) bool {
	for i := 0; i < 3; i++ {
		time.Sleep(100 * time.Millisecond)
		snap := s.takeSnapshot(false)
		if !snap.Quiesced || snap.N != first.N || s.tableLen() != 0 || s.live.Load() == 0 {
			return false
		}
	}
	return true
}

// tableCopy returns a private, sorted-later copy of the parked table.
//
//go:norace
func (s *Sim) tableCopy() []parkedEntry {
	s.mu.Lock()
	out := make([]parkedEntry, len(s.parked))
	for i := range s.parked {
		out[i] = s.parked[i]
	}
	s.mu.Unlock()
	return out
}

//go:norace
func (s *Sim) tableRemove(g *sync.Mutex) {
	s.mu.Lock()
	for i := range s.parked {
		if s.parked[i].gate == g {
			s.parked[i] = s.parked[len(s.parked)-1]
			s.parked[len(s.parked)-1] = parkedEntry{}
			s.parked = s.parked[:len(s.parked)-1]
			break
		}
	}
	s.mu.Unlock()
}

//go:norace
func (s *Sim) tableLen() int {
	s.mu.Lock()
	n := len(s.parked)
	s.mu.Unlock()
	return n
}

// Quiesce waits until every other goroutine is stably blocked and returns the
// snapshot (used for the goroutine census between renders).
func (s *Sim) Quiesce() (Snapshot, bool) {
	if s.selfID == 0 {
		s.selfID = goid()
	}
	return s.waitQuiescent()
}

// ParkedCount returns the number of goroutines parked right now.
func (s *Sim) ParkedCount() int { return s.tableLen() }

func itoa(n int) string { return strconv.Itoa(n) }
