//go:build !race

package simcore

// RaceEnabled reports whether the binary was built with -race.
const RaceEnabled = false

func raceDisable() {}
func raceEnable()  {}
