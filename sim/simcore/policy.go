package simcore

// Policy chooses which parked goroutine runs next. entries are sorted by
// label; the returned index refers to that order.
type Policy interface {
	Choose(step int, entries []Label, st *Stats) (idx int, diverged bool)
	Name() string
}

// RNG is splitmix64: the only source of randomness in a run.
type RNG struct{ s uint64 }

// NewRNG seeds a generator.
func NewRNG(seed uint64) *RNG { return &RNG{s: seed} }

// Uint64 returns the next value.
func (r *RNG) Uint64() uint64 {
	r.s += 0x9e3779b97f4a7c15
	z := r.s
	z = (z ^ (z >> 30)) * 0xbf58476d1ce4e5b9
	z = (z ^ (z >> 27)) * 0x94d049bb133111eb
	return z ^ (z >> 31)
}

// Intn returns a value in [0,n).
func (r *RNG) Intn(n int) int {
	if n <= 1 {
		return 0
	}
	return int(r.Uint64() % uint64(n))
}

// Float64 returns a value in [0,1).
func (r *RNG) Float64() float64 { return float64(r.Uint64()>>11) / (1 << 53) }

// Fork derives an independent stream.
func (r *RNG) Fork() *RNG { return NewRNG(r.Uint64()) }

// Fifo always runs the lowest label: the canonical execution.
type Fifo struct{}

func (Fifo) Choose(step int, e []Label, st *Stats) (int, bool) { return 0, false }
func (Fifo) Name() string                                      { return "fifo" }

// Uniform picks uniformly at random.
type Uniform struct{ R *RNG }

func (p Uniform) Choose(step int, e []Label, st *Stats) (int, bool) { return p.R.Intn(len(e)), false }
func (Uniform) Name() string                                        { return "uniform" }

// Lifo always runs the highest label.
type Lifo struct{}

func (Lifo) Choose(step int, e []Label, st *Stats) (int, bool) { return len(e) - 1, false }
func (Lifo) Name() string                                      { return "lifo" }

// PCT gives every (site,job,A-class) a random priority and changes the
// priority of the running class at d random steps.
type PCT struct {
	R       *RNG
	prio    map[uint64]uint64
	Changes map[int]bool
}

// NewPCT builds a PCT policy with d change points within horizon steps.
func NewPCT(r *RNG, d, horizon int) *PCT {
	p := &PCT{R: r, prio: map[uint64]uint64{}, Changes: map[int]bool{}}
	for i := 0; i < d; i++ {
		p.Changes[r.Intn(horizon+1)] = true
	}
	return p
}

func pctClass(l Label) uint64 {
	// a class is a site+job plus a coarse slice of A (so that batches,
	// producers and consumers are separate classes but single points are not)
	return uint64(l.Site)<<48 | uint64(l.Job)<<32 | (mix(l.A) & 7)
}

func (p *PCT) Choose(step int, e []Label, st *Stats) (int, bool) {
	best, bestP := 0, uint64(0)
	for i, l := range e {
		c := pctClass(l)
		pr, ok := p.prio[c]
		if !ok {
			pr = p.R.Uint64() | 1<<63
			p.prio[c] = pr
		}
		if i == 0 || pr > bestP {
			best, bestP = i, pr
		}
	}
	if p.Changes[step] {
		p.prio[pctClass(e[best])] = p.R.Uint64() >> 1 // drop below all initial priorities
	}
	return best, false
}
func (*PCT) Name() string { return "pct" }

// Starve never runs a victim while anything else can run: the stalled-node
// fault. Among the rest it delegates to Inner.
//
// With Leak > 0 the victim is let through once in Leak steps on average (a node
// that is slow, not stopped): it lags behind, and catches up at arbitrary moments.
type Starve struct {
	Victim func(Label) bool
	Inner  Policy
	Desc   string
	Leak   int
	R      *RNG
	// Trigger / TrigK: the victim is let through whenever some other goroutine is
	// parked at the TrigK-th distinct code location (in order of first appearance)
	// among the labels Trigger recognises: "the slow node catches up exactly when
	// another goroutine is between two particular statements".
	Trigger func(Label) (uint64, bool)
	TrigK   int
	seen    *[]uint64
}

// NewStarve returns a Starve policy with its mutable state allocated.
func NewStarve(s Starve) Starve {
	s.seen = &[]uint64{}
	return s
}

func (p Starve) Choose(step int, e []Label, st *Stats) (int, bool) {
	var idxs, vidx []int
	var rest, vics []Label
	victims := 0
	for i, l := range e {
		if p.Victim(l) {
			victims++
			vidx = append(vidx, i)
			vics = append(vics, l)
			continue
		}
		idxs = append(idxs, i)
		rest = append(rest, l)
	}
	if len(rest) == 0 {
		return p.Inner.Choose(step, e, st)
	}
	trig := false
	if p.Trigger != nil && p.TrigK > 0 && p.seen != nil {
		for _, l := range rest {
			id, ok := p.Trigger(l)
			if !ok {
				continue
			}
			k := -1
			for i, s := range *p.seen {
				if s == id {
					k = i
				}
			}
			if k < 0 {
				*p.seen = append(*p.seen, id)
				k = len(*p.seen) - 1
			}
			if k == p.TrigK-1 {
				trig = true
			}
		}
	}
	if victims > 0 && (trig || (p.Leak > 0 && p.R != nil && p.R.Intn(p.Leak) == 0)) {
		j, d := p.Inner.Choose(step, vics, st)
		if d || j < 0 || j >= len(vidx) {
			return 0, true
		}
		return vidx[j], false
	}
	if victims > 0 {
		st.StallSteps++
	}
	j, d := p.Inner.Choose(step, rest, st)
	if d || j < 0 || j >= len(idxs) {
		return 0, true
	}
	return idxs[j], false
}
func (p Starve) Name() string {
	if p.Leak > 0 {
		return "slow(" + p.Desc + ")"
	}
	return "starve(" + p.Desc + ")"
}

// Burst keeps running the class it ran last for as long as it can, then
// switches to a random other one.
type Burst struct {
	R    *RNG
	cur  uint64
	have bool
}

func (p *Burst) Choose(step int, e []Label, st *Stats) (int, bool) {
	if p.have {
		for i, l := range e {
			if pctClass(l) == p.cur {
				return i, false
			}
		}
	}
	i := p.R.Intn(len(e))
	p.cur, p.have = pctClass(e[i]), true
	return i, false
}
func (*Burst) Name() string { return "burst" }

// Explicit replays a recorded list of choices; afterwards it behaves as Fifo.
// A recorded choice that does not fit the parked set is clamped when Lenient
// (used by the minimiser) and reported as divergence otherwise.
type Explicit struct {
	Choices []int
	Sizes   []int // optional: recorded parked-set sizes, checked when present
	Lenient bool
}

func (p *Explicit) Choose(step int, e []Label, st *Stats) (int, bool) {
	if step >= len(p.Choices) {
		return 0, false
	}
	c := p.Choices[step]
	if !p.Lenient && step < len(p.Sizes) && p.Sizes[step] != len(e) {
		return 0, true
	}
	if c >= len(e) || c < 0 {
		if p.Lenient {
			return len(e) - 1, false
		}
		return 0, true
	}
	return c, false
}
func (*Explicit) Name() string { return "explicit" }
