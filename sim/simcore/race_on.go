//go:build race

package simcore

import "runtime"

// RaceEnabled reports whether the binary was built with -race.
const RaceEnabled = true

//go:norace
func raceDisable() { runtime.RaceDisable() }

//go:norace
func raceEnable() { runtime.RaceEnable() }
