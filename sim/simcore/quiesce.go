package simcore

import (
	"bytes"
	"runtime"
	"strconv"
	"syscall"
	"time"
)

// GoroutineInfo describes one goroutine in a snapshot.
type GoroutineInfo struct {
	ID     uint64
	State  string   // first field of the wait reason
	Frames []string // top function names (at most 6)
	Parked bool     // blocked on a simulator gate
	Stable bool
}

// Snapshot is the result of one stop-the-world look at all goroutines.
type Snapshot struct {
	N        int // user goroutines other than the scheduler
	Parked   int // of those, parked on a simulator gate
	Others   []GoroutineInfo
	Quiesced bool
	Why      string
}

var snapBuf = make([]byte, 1<<20)

// progress is bumped by the harness whenever the program under test does something
// observable (passes a hook site, active or not; evaluates a point through a wrapper;
// hands a batch to a tap). The livelock detector only speaks of a livelock when the
// counter stands still for the whole observation window.
//
// It is a plain word written without synchronisation from //go:norace functions, on
// purpose: an atomic counter touched by every goroutine at every hook would be a
// happens-before edge between all of them, and the race detector would stop seeing the
// races of the program under test. Lost increments do not matter (only "did it move").
var progress uint64

// Bump records progress of the program under test.
//
//go:norace
func Bump() { progress++ }

//go:norace
func progressNow() uint64 { return progress }

// stable wait states: a goroutine in one of these cannot become runnable
// unless another goroutine acts (there are no timers, network pollers or
// signal handlers in the code under simulation).
var stableStates = map[string]bool{
	"chan send":               true,
	"chan receive":            true,
	"select":                  true,
	"chan send (nil chan)":    true,
	"chan receive (nil chan)": true,
	"select (no cases)":       true,
	"sync.Mutex.Lock":         true,
	"sync.RWMutex.RLock":      true,
	"sync.RWMutex.Lock":       true,
	"sync.Cond.Wait":          true,
	"sync.WaitGroup.Wait":     true,
}

var (
	bGoroutine = []byte("goroutine ")
	bWGWait    = []byte("sync.(*WaitGroup).Wait")
	bPark      = []byte("simcore.parkOnGate")
	bSigLoop   = []byte("os/signal.loop")
	bEnvDrain  = []byte("main.envDrain") // harness goroutine that plays the reader of a pipe; part of the environment
	bSemacq    = "semacquire"
)

// takeSnapshot parses runtime.Stack(all).
func (s *Sim) takeSnapshot(detail bool) Snapshot {
	var n int
	for {
		n = runtime.Stack(snapBuf, true)
		if n < len(snapBuf) {
			break
		}
		snapBuf = make([]byte, 2*len(snapBuf))
	}
	data := snapBuf[:n]
	snap := Snapshot{Quiesced: true}
	for len(data) > 0 {
		// a block ends at a blank line
		end := bytes.Index(data, []byte("\n\n"))
		var blk []byte
		if end < 0 {
			blk = data
			data = nil
		} else {
			blk = data[:end]
			data = data[end+2:]
		}
		if !bytes.HasPrefix(blk, bGoroutine) {
			continue
		}
		// header: goroutine N [state, ...]:
		hdrEnd := bytes.IndexByte(blk, '\n')
		hdr := blk
		if hdrEnd >= 0 {
			hdr = blk[:hdrEnd]
		}
		rest := hdr[len(bGoroutine):]
		sp := bytes.IndexByte(rest, ' ')
		if sp < 0 {
			continue
		}
		id, _ := strconv.ParseUint(string(rest[:sp]), 10, 64)
		if id == s.selfID {
			continue
		}
		lb := bytes.IndexByte(rest, '[')
		rb := bytes.LastIndexByte(rest, ']')
		state := ""
		if lb >= 0 && rb > lb {
			state = string(rest[lb+1 : rb])
			if c := bytes.IndexByte([]byte(state), ','); c >= 0 {
				state = state[:c]
			}
		}
		if bytes.Contains(blk, bSigLoop) || bytes.Contains(blk, bEnvDrain) {
			continue // runtime-owned signal goroutine / environment: not part of the system
		}
		snap.N++
		stable := stableStates[state]
		if !stable && state == bSemacq && bytes.Contains(blk, bWGWait) {
			stable = true
		}
		parked := false
		if state == "sync.Mutex.Lock" && bytes.Contains(blk, bPark) {
			parked = true
			snap.Parked++
		}
		if !stable {
			snap.Quiesced = false
			if snap.Why == "" {
				snap.Why = "goroutine " + strconv.FormatUint(id, 10) + " [" + state + "]"
			}
		}
		if detail && !parked {
			gi := GoroutineInfo{ID: id, State: state, Stable: stable}
			lines := bytes.Split(blk, []byte("\n"))
			for i := 1; i < len(lines) && len(gi.Frames) < 14; i++ {
				ln := lines[i]
				if len(ln) == 0 || ln[0] == '\t' {
					continue
				}
				if p := bytes.LastIndexByte(ln, '('); p > 0 {
					ln = ln[:p]
				}
				gi.Frames = append(gi.Frames, string(ln))
			}
			snap.Others = append(snap.Others, gi)
		}
	}
	return snap
}

// waitQuiescent polls until every goroutine other than the scheduler is
// stably blocked and the number of goroutines blocked on a gate equals the
// number of table entries both before and after the snapshot.
func (s *Sim) waitQuiescent() (Snapshot, bool) {
	t0 := time.Now()
	spins := 0
	nextStallCheck := t0.Add(s.StallAfter)
	var spinArmed bool
	var spinProgress uint64
	var spinCPU0 time.Duration
	for {
		before := s.tableLen()
		snap := s.takeSnapshot(false)
		s.Stats.Snapshots++
		if snap.Quiesced {
			after := s.tableLen()
			if before == after && snap.Parked == after {
				if after == 0 {
					// terminal state: take the detailed picture
					snap = s.takeSnapshot(true)
					if !snap.Quiesced || snap.Parked != 0 {
						continue
					}
				}
				s.Stats.QuiesceNanos += time.Since(t0).Nanoseconds()
				return snap, true
			}
		}
		s.Stats.SnapshotRetry++
		spins++
		if spins < 20 {
			runtime.Gosched()
		} else {
			time.Sleep(time.Duration(20+spins) * time.Microsecond)
		}
		if spins%64 == 0 && s.StallAfter > 0 && time.Now().After(nextStallCheck) {
			// nothing has parked or blocked for a long time: is a goroutine of
			// the program under test spinning? (checked again every StallAfter)
			nextStallCheck = time.Now().Add(s.StallAfter)
			if snap, spinning := s.detectSpin(time.Since(t0)); spinning && snap.Why == "sleep-retry" {
				// asleep in the same library function for SleepBound: a retry loop that
				// never gives up (it burns no processor time: the rule below does not apply)
				snap.Why = "livelock"
				return snap, false
			} else if spinning {
				// A long computation inside one library call looks the same from outside.
				// What tells them apart is how much processor time goes by without any
				// progress (processor time, not wall-clock time: a loaded machine
				// stretches the latter only): the verdict is given once the process has
				// burned SpinCPU of it in this state.
				cpuNow := processCPU()
				prog := progressNow()
				if !spinArmed || prog != spinProgress {
					spinArmed, spinProgress, spinCPU0 = true, prog, cpuNow
				}
				if s.SpinCPU <= 0 || cpuNow-spinCPU0 >= s.SpinCPU {
					snap.Why = "livelock"
					return snap, false
				}
				nextStallCheck = time.Now().Add(3 * time.Second)
			} else {
				spinArmed = false
			}
		}
		if spins%256 == 0 && !s.Deadline.IsZero() && time.Now().After(s.Deadline) {
			snap = s.takeSnapshot(true)
			return snap, false
		}
	}
}

func goid() uint64 {
	var buf [64]byte
	n := runtime.Stack(buf[:], false)
	b := buf[:n]
	b = b[len("goroutine "):]
	var id uint64
	for _, c := range b {
		if c < '0' || c > '9' {
			break
		}
		id = id*10 + uint64(c-'0')
	}
	return id
}

// creatorChain returns the goroutine id that created the calling goroutine
// ("created by ... in goroutine N"), if the runtime reports it.
func creatorChain() []uint64 {
	buf := make([]byte, 16384)
	n := runtime.Stack(buf, false)
	b := buf[:n]
	key := []byte(" in goroutine ")
	i := bytes.LastIndex(b, key)
	if i < 0 {
		return nil
	}
	b = b[i+len(key):]
	var id uint64
	for _, c := range b {
		if c < '0' || c > '9' {
			break
		}
		id = id*10 + uint64(c-'0')
	}
	return []uint64{id}
}

// detectSpin samples the goroutine states ten times over five seconds. It
// reports a livelock when the same goroutine is runnable/running in the same
// function in every sample and the process burned CPU for most of the window:
// a busy loop, as opposed to a process that is merely starved of CPU.
//
// It also reports a livelock when a goroutine has been asleep (time.Sleep) in
// the same function of the library under test in every sample and nothing
// has quiesced for SleepBound: a retry loop that never gives up. Sleeps of
// the harness itself (a deliberately slow scripted renderer) do not count.
func (s *Sim) detectSpin(stalled time.Duration) (Snapshot, bool) {
	const samples = 10
	const gap = 500 * time.Millisecond
	p0 := progressNow()
	var ru0, ru1 syscall.Rusage
	syscall.Getrusage(syscall.RUSAGE_SELF, &ru0)
	w0 := time.Now()
	count := map[string]int{}
	sleepers := map[string]int{}
	common := map[string]map[string]bool{}
	var last Snapshot
	for i := 0; i < samples; i++ {
		snap := s.takeSnapshot(true)
		last = snap
		if snap.Quiesced {
			return snap, false
		}
		seen := map[string]bool{}
		for _, g := range snap.Others {
			if g.Stable {
				continue
			}
			if g.State == "sleep" {
				top := ""
				for _, f := range g.Frames {
					if !hasPrefix(f, "runtime.") && !hasPrefix(f, "time.") {
						top = f
						break
					}
				}
				if hasPrefix(top, "github.com/deadsy/sdfx/") {
					k := "sleep:" + strconv.FormatUint(g.ID, 10) + "@" + top
					if !seen[k] {
						seen[k] = true
						sleepers[k]++
					}
				}
				continue
			}
			// a spinning goroutine is identified by its id; the functions that
			// are on its stack in every sample say where it spins
			k := strconv.FormatUint(g.ID, 10)
			if !seen[k] {
				seen[k] = true
				count[k]++
				cur := map[string]bool{}
				for _, f := range g.Frames {
					cur[f] = true
				}
				if prev, ok := common[k]; ok {
					for f := range prev {
						if !cur[f] {
							delete(prev, f)
						}
					}
				} else {
					common[k] = cur
				}
			}
		}
		time.Sleep(gap)
	}
	if progressNow() != p0 {
		// the program under test passed hook sites, evaluated points or delivered output
		// during the window: a long computation, not a loop that goes nowhere
		return last, false
	}
	syscall.Getrusage(syscall.RUSAGE_SELF, &ru1)
	cpu := time.Duration(ru1.Utime.Nano()-ru0.Utime.Nano()) + time.Duration(ru1.Stime.Nano()-ru0.Stime.Nano())
	wall := time.Since(w0)
	for k, c := range count {
		if c == samples && cpu > wall/5 {
			// only code of the library under test counts (a harness goroutine
			// that spins is a harness problem: the watchdog reports it)
			for f := range common[k] {
				if hasPrefix(f, "github.com/deadsy/sdfx/") {
					return last, true
				}
			}
		}
	}
	if stalled >= s.SleepBound && s.SleepBound > 0 {
		for _, c := range sleepers {
			if c == samples {
				last.Why = "sleep-retry"
				return last, true
			}
		}
	}
	return last, false
}

// processCPU: user+system processor time of this process so far.
func processCPU() time.Duration {
	var ru syscall.Rusage
	syscall.Getrusage(syscall.RUSAGE_SELF, &ru)
	return time.Duration(ru.Utime.Nano()) + time.Duration(ru.Stime.Nano())
}

func hasPrefix(s, p string) bool { return len(s) >= len(p) && s[:len(p)] == p }
